"""C02 - valid values survive the wire encoding and the text encoding unchanged"""
import json
import random

from vlib import rec, refdt, gen_dt

ID = 'C02'
LEVEL = 'exploration'
RULE = ('random datainfo trees x valid values generated from the datainfo itself (limits, grid points far from zero, '
        'empty/maximal containers, every enum member, escape-laden and non-ASCII strings, all byte values, structs '
        'with absent optional members). per value: export -> strict JSON -> import on the node datatype and on the '
        'datatype rebuilt from the description; to_string/from_string/CacheItem.__str__. distinct = (tree shape, '
        'value features); non-trivial = container, limit value, escape/non-ASCII string or |grid index| > 2**20')
ASSUMPTIONS = ['valid values are produced by vlib.gen_dt from the datainfo, not by frappy',
               'scaled grid indices are judged for |k| <= 2**31 (beyond, k*scale/scale is not exact in binary floating point)',
               'text round trip of floats is judged on the text (identical text form), not on the value',
               'partial structs (absent optional members) are judged on the client-side datatype only']
REQUIRED = ['values', 'oracle_wire_kind', 'oracle_import_node', 'oracle_import_client', 'oracle_text', 'oracle_cacheitem']

N = {'quick': 15000, 'thorough': 500000}


def plan(tier, seed, scale=1.0):
    return [{'idx': i, 'n': int(N[tier] * scale)} for i in range(16)]


def has_float(di):
    t = di['type']
    if t in ('double', 'scaled'):
        return True
    if t == 'array':
        return has_float(di['members'])
    if t == 'tuple':
        return any(has_float(m) for m in di['members'])
    if t == 'struct':
        return any(has_float(m) for m in di['members'].values())
    return False


def is_complete(di, w):
    t = di['type']
    if t == 'struct':
        return set(w) == set(di['members']) and all(is_complete(di['members'][k], w[k]) for k in w)
    if t == 'array':
        return all(is_complete(di['members'], e) for e in w)
    if t == 'tuple':
        return all(is_complete(m, e) for m, e in zip(di['members'], w))
    return True


def features(di, w, out=None):
    """what makes the value interesting (also the mechanism part of classification keys)"""
    out = set() if out is None else out
    t = di['type']
    if t == 'tuple':
        out.add('tuple%d' % min(len(w), 3))
        for m, e in zip(di['members'], w):
            features(m, e, out)
    elif t == 'array':
        out.add('array' + ('0' if not w else '1' if len(w) == 1 else 'N'))
        for e in w:
            features(di['members'], e, out)
    elif t == 'struct':
        out.add('struct' + ('' if set(w) == set(di['members']) else '-partial') + ('0' if not w else ''))
        for k, e in w.items():
            features(di['members'][k], e, out)
    elif t == 'string':
        out.add('string' + ('-empty' if not w else '') + ('-nonascii' if not w.isascii() else '') +
                ('-esc' if any(c in w for c in '"\\\n\t\'') else '') + ('-ws' if w != w.strip() else ''))
    elif t == 'blob':
        out.add('blob' + ('-empty' if not w else ''))
    elif t == 'double':
        out.add('double' + ('-lim' if w in (di.get('min'), di.get('max')) else '') + ('-huge' if abs(w) > 1e15 else '') +
                ('-tiny' if 0 < abs(w) < 1e-15 else '') + ('-fmt' if 'fmtstr' in di else ''))
    elif t == 'scaled':
        out.add('scaled' + ('-far' if abs(w) > 1 << 20 else '') + ('-fmt' if 'fmtstr' in di else ''))
    elif t == 'int':
        out.add('int' + ('-big' if abs(w) > 1 << 53 else ''))
    else:
        out.add(t)
    return out


def own_feature(di, w):
    """feature of the culprit node itself (not of its children)"""
    t = di['type']
    if t == 'tuple':
        return 'tuple/arity%d' % min(len(w), 3)
    if t == 'array':
        return 'array/' + ('empty' if not w else 'one' if len(w) == 1 else 'many')
    if t == 'struct':
        return 'struct/' + ('complete' if set(w) == set(di['members']) else 'partial') + ('-empty' if not w else '')
    if t == 'string':
        return 'string/' + ('minchars-without-maxchars' if 'minchars' in di and 'maxchars' not in di else
                            '+'.join(sorted(features(di, w))))
    if t == 'double' and w < 0:
        try:
            if float(di.get('fmtstr', '%g') % w) == 0:
                return 'double/negative-value-formatted-as-minus-zero'
        except Exception:
            pass
    return t + '/' + '+'.join(sorted(features(di, w)))


def has_lone_surrogate(w):
    if isinstance(w, str):
        return any('\ud800' <= ch <= '\udfff' for ch in w)
    if isinstance(w, dict):
        return any(has_lone_surrogate(v) for v in w.values())
    if isinstance(w, list):
        return any(has_lone_surrogate(v) for v in w)
    return False


class Monitor:
    def __init__(self, r):
        self.r = r
        from vlib import dtbuild
        self.B = dtbuild
        from frappy.datatypes import get_datatype
        from frappy.client import CacheItem
        self.get_datatype = get_datatype
        self.CacheItem = CacheItem

    def viol(self, clause, side, di, feats, case, extra=''):
        """classification key: clause x side x culprit, where the culprit is found by reduction - the
        smallest sub-value (with its own sub-datatype) that still fails the same clause on its own"""
        cdi, cw = self.reduce(clause, side, di, case['value'])
        f = own_feature(cdi, cw)
        self.r.violation(f'C02/{clause}/{side}/{f}', f'{clause} ({side}) {extra}'.strip(),
                         dict(case, culprit={'spec': cdi, 'value': cw}))

    def reduce(self, clause, side, di, w):
        t = di['type']
        subs = []
        if t == 'array':
            subs = [(di['members'], e) for e in w]
        elif t == 'tuple':
            subs = list(zip(di['members'], w))
        elif t == 'struct':
            subs = [(di['members'][k], e) for k, e in w.items()]
        for sdi, sw in subs:
            probe = Monitor(rec.Recorder())
            probe.viol = lambda c, s_, d, f, case, extra='', _p=probe: _p.hits.append((c, s_))
            probe.hits = []
            try:
                probe.run_case(sdi, sw, lone=getattr(self, '_lone', False))
            except Exception:
                continue
            if (clause, side) in probe.hits:
                return self.reduce(clause, side, sdi, sw)
        return di, w

    def run_case(self, di, w, lone=False):
        """lone: the value contains a lone surrogate - outside the reference model, only the round trips are judged"""
        self._lone = lone
        r = self.r
        B = self.B
        feats = features(di, w)
        comp = is_complete(di, w)
        case = {'spec': di, 'value': w}
        nontrivial = di['type'] in ('array', 'tuple', 'struct') or any('-' in f for f in feats)
        r.case((gen_dt.tree_shape(di), tuple(sorted(feats))), nontrivial)
        r.count('values')
        if r.want_sample() and nontrivial:
            r.sample({'datainfo': gen_dt.public(di), 'value': w})
        judged_scaled = not any(f.startswith('scaled-far') for f in feats) or _max_scaled(di, w) <= 1 << 31
        srv = B.build(di)
        try:
            info = json.loads(json.dumps(srv.export_datatype(), allow_nan=False))
            cli = self.get_datatype(info)
        except Exception as e:
            self.viol('rebuild-raises', 'cli', di, feats, case, type(e).__name__)
            return
        v = gen_dt.to_py(di, w)
        for side, dt in (('node', srv), ('cli', cli)):
            if side == 'node' and not comp:
                continue
            try:
                vi = dt(v)
            except Exception as e:
                self.viol('valid-value-rejected', side, di, feats, case, type(e).__name__ + ': ' + str(e)[:100])
                continue
            # ---- wire encoding
            try:
                e = dt.export_value(vi)
                s = json.dumps(e, allow_nan=False)
                e2 = json.loads(s)
            except Exception as ex:
                self.viol('export-raises', side, di, feats, case, type(ex).__name__)
                continue
            # ---- the message frame codec carries the exported form unchanged (node -> client: update, client -> node: change)
            try:
                from frappy.protocol.interface import encode_msg_frame, decode_msg
                frame = encode_msg_frame('update' if side == 'node' else 'change', 'm:p', [e, {}] if side == 'node' else e)
                act, spec, data = decode_msg(frame[:-1])
                got = data[0] if side == 'node' else data
                r.count('oracle_frame_codec')
                if frame[-1:] != b'\n' or b'\n' in frame[:-1] or got != e2 or spec != 'm:p':
                    case['frame'] = frame[:200].decode('latin1')
                    self.viol('frame-codec-changes-value', side, di, feats, case)
                    continue
            except Exception as ex:
                self.viol('frame-codec-raises', side, di, feats, case, type(ex).__name__)
                continue
            r.count('oracle_wire_kind')
            if not judged_scaled:
                r.count('not_judged_scaled_far')
            elif lone:
                r.count('not_judged_by_reference_model_lone_surrogate')
            elif not refdt.member(di, e2, partial_ok=True) or not refdt.same_wire(di, w, e2):
                case['exported'] = e2
                self.viol('wrong-wire-form', side, di, feats, case)
                continue
            try:
                back = dt.import_value(e2)
                ok = back == vi and dt.validate(back) == vi
            except Exception as ex:
                ok = False
                case['import_error'] = type(ex).__name__
            r.count('oracle_import_' + ('node' if side == 'node' else 'client'))
            if not ok and judged_scaled:
                self.viol('import-differs', side, di, feats, case)
                continue
            # ---- text encoding
            r.count('oracle_text')
            try:
                txt = dt.to_string(vi)
                v2 = dt.from_string(txt)
                txt2 = dt.to_string(v2)
            except Exception as ex:
                self.viol('text-raises', side, di, feats, case, type(ex).__name__)
                continue
            if txt2 != txt:
                case['text'] = [txt, txt2]
                self.viol('text-not-stable', side, di, feats, case)
                continue
            if not has_float(di):
                try:
                    same = json.loads(json.dumps(dt.export_value(v2))) == e2
                except Exception:
                    same = False
                if not same:
                    case['text'] = txt
                    self.viol('text-value-differs', side, di, feats, case)
                    continue
            r.count('oracle_cacheitem')
            try:
                item = self.CacheItem(vi, 1.0, None, dt)
                v3 = dt.from_string(str(item))
                if dt.to_string(v3) != txt:
                    self.viol('cacheitem-str-differs', side, di, feats, case)
            except Exception as ex:
                self.viol('cacheitem-str-rejected', side, di, feats, case, type(ex).__name__)


def _max_scaled(di, w):
    t = di['type']
    if t == 'scaled':
        return abs(w)
    if t == 'array':
        return max([_max_scaled(di['members'], e) for e in w] or [0])
    if t == 'tuple':
        return max(_max_scaled(m, e) for m, e in zip(di['members'], w))
    if t == 'struct':
        return max([_max_scaled(di['members'][k], e) for k, e in w.items()] or [0])
    return 0


def run_concurrent(mon, r, rng, n):
    """one datatype object is used by several threads (poller update, read reply, client request): a second thread
    exports / imports another value exactly before the k-th line the first one executes inside an export_value /
    import_value method - both must get what they get when they are alone, also on a repeated export afterwards"""
    from vlib import lineinject
    import frappy.datatypes as D
    funcs = []
    for cls in vars(D).values():
        if isinstance(cls, type) and issubclass(cls, D.DataType):
            for name in ('export_value', 'import_value'):
                f = cls.__dict__.get(name)
                if f is not None:
                    funcs.append(f)
    inj = lineinject.LineInjector(*funcs, name='c02-inject')
    try:
        for _ in range(n):
            di = gen_dt.gen_tree(rng, rng.choice([0, 0, 1, 2]))
            w1, w2 = (json.loads(json.dumps(gen_dt.complete(di, gen_dt.gen_valid(di, rng), rng))) for _ in range(2))
            try:
                ref = mon.B.build(di)
                v1, v2 = ref(gen_dt.to_py(di, w1)), ref(gen_dt.to_py(di, w2))
                e1, e2 = ref.export_value(v1), ref.export_value(v2)
                i1, i2 = ref.import_value(json.loads(json.dumps(e1))), ref.import_value(json.loads(json.dumps(e2)))
            except Exception:
                continue
            dt = mon.B.build(di)
            for op in ('export', 'import'):
                k = rng.randint(1, 6)
                got = {}

                def other(dt=dt, op=op):
                    got['second'] = dt.export_value(v2) if op == 'export' else dt.import_value(json.loads(json.dumps(e2)))
                inj.arm(k, other)
                try:
                    got['first'] = dt.export_value(v1) if op == 'export' else dt.import_value(json.loads(json.dumps(e1)))
                except Exception as e:
                    got['first'] = f'raises {type(e).__name__}'
                injected = inj.disarm()
                got['again'] = dt.export_value(v1) if op == 'export' else dt.import_value(json.loads(json.dumps(e1)))
                r.count('concurrent_uses_checked')
                if injected:
                    r.count('concurrent_uses_injected')
                want1, want2 = (e1, e2) if op == 'export' else (i1, i2)
                bad = [n_ for n_, g, w_ in (('first', got.get('first'), want1), ('second', got.get('second', want2), want2), ('again', got['again'], want1)) if g != w_]
                if bad:
                    tk = own_feature(di, w1).split('/')[0]
                    r.violation(f'C02/concurrent-{op}-differs/{tk}/{"+".join(bad)}',
                                f'{op} of two values through one datatype object from two threads: {bad} differ from the single-threaded results',
                                {'spec': di, 'values': [w1, w2], 'line': k, 'sub': 'concurrent'})
                    return
            r.case(('concurrent', gen_dt.tree_shape(di)), True)
    finally:
        inj.close()


def run_shard(shard):
    r = rec.Recorder(shard)
    rng = random.Random(f'C02/{shard["seed"]}/{shard["idx"]}')
    mon = Monitor(r)
    n = 0
    special = [({'type': 'blob', 'maxbytes': 256}, gen_dt.all_blob_bytes())]
    for di, w in special:
        mon.run_case(di, w)
    while n < shard['n']:
        di = gen_dt.gen_tree(rng, rng.choice([0, 0, 1, 2, 3]))
        for _ in range(6):
            w = gen_dt.gen_valid(di, rng, stored=rng.random() < 0.6)
            w = json.loads(json.dumps(w))
            mon.run_case(di, w)
            n += 1
            if rng.random() < 0.1:
                # strings with a lone surrogate code point: not well-formed Unicode, but where the datatype accepts such a
                # value it has to survive export, frame codec and import like any other
                ws, ok = gen_dt.with_lone_surrogate(di, w, rng)
                if ok:
                    try:
                        mon.B.build(di)(gen_dt.to_py(di, ws))
                    except Exception:
                        continue
                    r.count('accepted_values_with_lone_surrogate')
                    mon.run_case(di, ws, lone=True)
    run_concurrent(mon, r, rng, max(20, shard['n'] // 50))
    return r.result()


def replay(case):
    r = rec.Recorder()
    if case.get('sub') == 'concurrent':
        run_concurrent(Monitor(r), r, random.Random(3), 2000)
        return r.result()
    Monitor(r).run_case(case['spec'], case['value'], lone=has_lone_surrogate(case['value']))
    return r.result()
