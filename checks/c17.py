"""C17 - persistent parameters: crash-atomic, exact round trip, retried after failure

monitor: file-system fault injector (vlib.fsfault) enumerating every operation of every save in crash
and I/O-error mode + oracle on the directory content and on modules re-created from it; corruption
catalogue on the stored file."""
import json
import os
import random
import shutil
import tempfile
from pathlib import Path

from vlib import rec, refdt, gen_dt

ID = 'C17'
LEVEL = 'fault_enumeration'
RULE = ('generated modules with 1..4 persistent parameters over random datatypes (auto and explicit saving, with and '
        'without write methods); per module several value changes; for each change EVERY file-system operation of the '
        'save (open, each write, close, rename, remove) is failed once as a process crash (with partial write) and once '
        'as an I/O error (exhaustive per save); then restart from the directory; plus round trip, configuration '
        'precedence and a corruption catalogue (truncation at every byte, bit flips, other JSON kinds, wrong-typed / '
        'out-of-range / partial entries, unknown keys); plus run-time histories of {assign, save, damage the file behind the '
        'module\'s back (remove, truncate, empty, other JSON, garbage), reload (loadParameters), restart}. distinct = (datatype shapes, fault mode, operation kind and index) '
        'or (corruption kind, datatype kind); non-trivial = every injected fault and every corruption')
ASSUMPTIONS = ['process-crash model: operations that returned are on disk; power loss / missing fsync is not judged',
               'the injector shadows open/os as seen from frappy.persistent; pathlib calls are not intercepted '
               '(a save that bypasses open/os.rename shows up as zero injected faults -> inconclusive)',
               'leftover temporary files are allowed; only the target file is judged']
REQUIRED = ['saves_enumerated', 'faults_injected_crash', 'faults_injected_error', 'oracle_disk_old_or_new',
            'oracle_retry', 'oracle_restart', 'oracle_roundtrip', 'oracle_cfg_precedence', 'corruptions', 'oracle_corrupt_entry',
            'histories', 'history_saves_checked', 'history_damages', 'history_reloads', 'history_restarts_checked']

N = {'quick': 7, 'thorough': 300}


def plan(tier, seed, scale=1.0):
    return [{'idx': i, 'n': max(1, int(N[tier] * scale))} for i in range(16)]


class World:
    def __init__(self, r, rng):
        from vlib import env, fsfault, dtbuild, nodes
        import frappy.persistent as P
        from frappy.modules import Module
        self.r, self.rng = r, rng
        self.P, self.Module = P, Module
        self.B = dtbuild
        self.nodes = nodes
        self.env = env
        self.inj = fsfault.install(P, fsfault.Injector())
        self.Crash = fsfault.SimulatedCrash
        self.root = tempfile.mkdtemp(prefix='c17-')

    def close(self):
        shutil.rmtree(self.root, ignore_errors=True)

    # ---------------------------------------------------------------- module generation
    def gen_module(self):
        rng = self.rng
        specs = []
        for i in range(rng.choice([1, 2, 3, 4])):
            spec = gen_dt.gen_tree(rng, rng.choice([0, 0, 1, 2]))
            specs.append({'spec': spec, 'auto': rng.random() < 0.6, 'write': rng.random() < 0.5,
                          'default': gen_dt.complete(spec, gen_dt.gen_valid(spec, rng, True), rng)})
            # a read-only persistent parameter without write method (an encoder reading kept over restarts)
            specs[-1]['ro'] = not specs[-1]['write'] and rng.random() < 0.4
            # an internal parameter (not visible to clients) is kept all the same
            specs[-1]['hidden'] = rng.random() < 0.25
        return specs

    def make_class(self, specs):
        P = self.P
        ns = {'__module__': __name__, 'writes': None}
        for i, s in enumerate(specs):
            name = f'p{i}'
            ns[name] = P.PersistentParam('persistent parameter', self.B.build(s['spec']),
                                         default=gen_dt.to_py(s['spec'], s['default']),
                                         persistent='auto' if s['auto'] else 'on', readonly=bool(s.get('ro')),
                                         **({'export': False} if s.get('hidden') else {}))
            if s['write']:
                def w(self, value, _n=name):
                    if getattr(self, 'offline', False):
                        from frappy.errors import HardwareError
                        raise HardwareError('the device is offline')
                    self.writes.append((_n, value))
                    return value
                w.__name__ = 'write_' + name
                ns['write_' + name] = w
        return type('PMod', (P.PersistentMixin, self.Module), ns)

    def mk(self, cls, d, cfg=None):
        self.env.set_config(logdir=Path(d))
        srv = self.nodes._Srv()
        srv.secnode = type('SN', (), {'equipment_id': 'eq'})()
        m = self.nodes.make_module(cls, 'm', srv=srv, **(cfg or {}))
        m.writes = []
        return m

    def target(self, d):
        return Path(d) / 'persistent' / 'eq.m.json'

    def disk(self, d):
        """parsed content of the target file | None (absent) | ('CORRUPT', text)"""
        p = self.target(d)
        if not p.exists():
            return None
        raw = p.read_bytes()
        try:
            return json.loads(raw.decode('utf-8'))
        except Exception:
            return ('CORRUPT', raw[:80].decode('utf-8', 'replace'))

    def snapshot(self, m):
        return json.loads(json.dumps({k: v.export_value() for k, v in m.parameters.items() if getattr(v, 'persistent', False)}))

    def values_equal(self, m, snap, specs, only=None):
        for i, s in enumerate(specs):
            name = f'p{i}'
            if only is not None and name not in only:
                continue
            try:
                e = json.loads(json.dumps(m.parameters[name].export_value()))
            except Exception as ex:
                return name, f'export raises {type(ex).__name__}'
            if e != snap.get(name):
                return name, (e, snap.get(name))
        return None

    # ---------------------------------------------------------------- scenario
    def run_module(self, specs, case_base):
        r, rng = self.r, self.rng
        cls = self.make_class(specs)
        shapes = tuple(gen_dt.tree_shape(s['spec']) for s in specs)
        d0 = os.path.join(self.root, 'base')
        shutil.rmtree(d0, ignore_errors=True)
        os.makedirs(d0)
        self.inj.reset()
        try:
            m = self.mk(cls, d0)
            m.writeInitParams()
        except Exception as e:
            r.violation('C17/startup-fails/fresh-directory', f'construction in an empty directory raises {type(e).__name__}: {e}'[:200], case_base)
            return
        # V1
        v1 = {f'p{i}': gen_dt.complete(s['spec'], gen_dt.gen_valid(s['spec'], rng, True), rng) for i, s in enumerate(specs)}
        for i, s in enumerate(specs):
            if rng.random() < 0.8:
                # a string with a lone surrogate code point: where the datatype accepts it, it is stored and restored like any other
                ws, ok = gen_dt.with_lone_surrogate(s['spec'], v1[f'p{i}'], rng)
                if ok:
                    try:
                        self.B.build(s['spec'])(gen_dt.to_py(s['spec'], ws))
                        v1[f'p{i}'] = ws
                        r.count('stored_values_with_lone_surrogate')
                    except Exception:
                        pass
        try:
            for i, s in enumerate(specs):
                setattr(m, f'p{i}', gen_dt.to_py(s['spec'], v1[f'p{i}']))
            m.saveParameters()
        except Exception as e:
            r.violation(f'C17/save-raises/{type(e).__name__}', f'assigning valid values and saving raises {type(e).__name__}: {e}'[:200], dict(case_base, values=v1))
            return
        snap1 = self.snapshot(m)
        r.count('oracle_roundtrip')
        if self.disk(d0) != snap1:
            r.violation('C17/save-incomplete', 'after saveParameters() the file does not hold the current values',
                        dict(case_base, disk=self.disk(d0), expected=snap1))
            return
        # round trip
        m2 = self.mk(cls, d0)
        bad = self.values_equal(m2, snap1, specs)
        if bad:
            tk = specs[int(bad[0][1:])]['spec']['type']
            r.violation(f'C17/roundtrip-differs/{tk}', f'parameter {bad[0]} not restored to an equal value: {bad[1]}'[:200],
                        dict(case_base, values=v1))
        if any(s['write'] for s in specs):
            m2.writeInitParams()
            want = [(f'p{i}', snap1[f'p{i}']) for i, s in enumerate(specs) if s['write']]
            got = [(n, json.loads(json.dumps(m2.parameters[n].datatype.export_value(v)))) for n, v in m2.writes]
            r.count('oracle_written_to_hw')
            if sorted(got, key=repr) != sorted(want, key=repr):
                r.violation('C17/restored-value-not-written', 'restored values are not handed to the write methods exactly once',
                            dict(case_base, writes=got, expected=want))
        # configuration precedence
        r.count('oracle_cfg_precedence')
        given = {}
        for i, s in enumerate(specs):
            if rng.random() < 0.5:
                given[f'p{i}'] = gen_dt.complete(s['spec'], gen_dt.gen_valid(s['spec'], rng, True), rng)
        if given:
            cfg = {n: {'value': gen_dt.to_py(specs[int(n[1:])]['spec'], w)} for n, w in given.items()}
            try:
                m3 = self.mk(cls, d0, cfg)
                exp = dict(snap1)
                for n in given:
                    exp[n] = self.snapshot_one(specs[int(n[1:])]['spec'], given[n])
                bad = self.values_equal(m3, exp, specs)
                if bad:
                    which = 'configured' if bad[0] in given else 'stored'
                    r.violation(f'C17/cfg-precedence/{which}-value-lost', f'{bad[0]}: {bad[1]}'[:200], dict(case_base, given=given))
            except Exception as e:
                r.violation('C17/cfg-precedence/raises', f'{type(e).__name__}: {e}'[:200], dict(case_base, given=given))
            # the run with configured values may have rewritten the file: restore
            self.target(d0).write_text(json.dumps(snap1, indent=2) + '\n')
        r.case(('module', shapes), True)
        if r.want_sample():
            r.sample({'parameters': [{'datainfo': gen_dt.public(s['spec']), 'auto': s['auto'], 'write': s['write']} for s in specs], 'V1': v1})
        # ---- fault enumeration on single-parameter changes
        for _ in range(2):
            i = rng.randrange(len(specs))
            name, s = f'p{i}', specs[i]
            w2 = gen_dt.complete(s['spec'], gen_dt.gen_valid(s['spec'], rng, True), rng)
            new = dict(snap1)
            new[name] = self.snapshot_one(s['spec'], w2)
            if new == snap1:
                continue
            self.enumerate_faults(cls, specs, d0, snap1, new, name, gen_dt.to_py(s['spec'], w2), case_base)

    # ---------------------------------------------------------------- run-time histories
    DAMAGES = ['remove', 'truncate', 'empty', 'other-json', 'garbage']

    def run_history(self, specs, case_base):
        """histories of {set, save, damage the file, reload (loadParameters), restart} on one directory.

        model: what the module can know about the disk.  after a save that returns normally the file must hold the current
        values whenever the module knows what is on disk: (a) it wrote or read the file itself and nobody touched it
        since, or (b) the file was damaged behind its back but it has re-read it (loadParameters) afterwards.  a restart
        after such a save restores exactly these values."""
        r, rng = self.r, self.rng
        cls = self.make_class(specs)
        d = os.path.join(self.root, 'hist')
        shutil.rmtree(d, ignore_errors=True)
        os.makedirs(d)
        self.inj.reset()
        # some of the parameters may have a start value in the configuration (it wins over the stored one at every start; a
        # reload at run time restores what is stored)
        given, hcfg = {}, None
        if rng.random() < 0.4:
            for i, s_ in enumerate(specs):
                if not s_.get('ro') and rng.random() < 0.5:
                    given[f'p{i}'] = gen_dt.complete(s_['spec'], gen_dt.gen_valid(s_['spec'], rng, True), rng)
            if given:
                hcfg = {n: {'value': gen_dt.to_py(specs[int(n[1:])]['spec'], w_)} for n, w_ in given.items()}
                case_base = dict(case_base, configured=given)
                r.count('histories_with_configured_start_values')
        try:
            m = self.mk(cls, d, hcfg)
            m.writeInitParams()
        except Exception as e:
            r.violation('C17/startup-fails/fresh-directory', f'{type(e).__name__}: {e}'[:200], case_base)
            return
        knows_disk = True          # the module's picture of the disk is right
        ops = []
        case = dict(case_base, sub='history', ops=ops)
        for step in range(rng.randint(4, 12)):
            op = rng.choice(['set', 'set', 'save', 'save', 'damage', 'reload', 'restart'])
            try:
                if op == 'set':
                    i = rng.randrange(len(specs))
                    w = gen_dt.complete(specs[i]['spec'], gen_dt.gen_valid(specs[i]['spec'], rng, True), rng)
                    ops.append(['set', f'p{i}', w])
                    prev = self.snapshot(m).get(f'p{i}')
                    setattr(m, f'p{i}', gen_dt.to_py(specs[i]['spec'], w))
                    # parameters saved automatically are written when the assignment changes them
                    if specs[i]['auto'] and knows_disk and not m.writeDict and self.snapshot(m).get(f'p{i}') != prev:
                        r.count('history_autosaves_checked')
                        if self.disk(d) != self.snapshot(m):
                            r.violation('C17/history/autosave-missing', f'after assigning the auto-saved parameter p{i} the file differs from the current values',
                                        dict(case, disk=self.disk(d), expected=self.snapshot(m)))
                            return
                elif op == 'save':
                    ops.append(['save'])
                    m.saveParameters()
                    if m.writeDict:
                        # documented: nothing is saved before all values were handed to the hardware - but every start-up and
                        # every reload of this history has done that (writeInitParams returned, failed writes included)
                        r.violation('C17/history/save-skipped/values-still-waiting-to-be-written', f'saveParameters() did nothing: {sorted(m.writeDict)} are still '
                                    f'waiting to be written although the start-up writes were attempted', case)
                        return
                    if knows_disk:
                        r.count('history_saves_checked')
                        if self.disk(d) != self.snapshot(m):
                            r.violation('C17/history/save-does-not-leave-current-values-on-disk',
                                        f'saveParameters() returned but the file holds {str(self.disk(d))[:80]} instead of the current values',
                                        dict(case, disk=self.disk(d), expected=self.snapshot(m)))
                            return
                elif op == 'damage':
                    kind = rng.choice(self.DAMAGES)
                    ops.append(['damage', kind])
                    t = self.target(d)
                    if kind == 'remove':
                        if t.exists():
                            t.unlink()
                    elif t.exists() or kind != 'truncate':
                        t.parent.mkdir(parents=True, exist_ok=True)
                        if kind == 'truncate':
                            raw = t.read_bytes()
                            t.write_bytes(raw[:max(1, len(raw) // 2)])
                        elif kind == 'empty':
                            t.write_bytes(b'')
                        elif kind == 'other-json':
                            t.write_text(rng.choice(['[1, 2]', '"text"', 'null', '{"unrelated": 1}']))
                        else:
                            t.write_bytes(bytes(rng.randrange(256) for _ in range(20)))
                    knows_disk = False
                    r.count('history_damages')
                elif op == 'reload':
                    ops.append(['reload'])
                    stored = self.disk(d) if knows_disk else None
                    m.loadParameters()        # "may be called from a module when a hardware power down is detected"
                    knows_disk = True
                    r.count('history_reloads')
                    if isinstance(stored, dict) and not m.writeDict:
                        # the file was written by the module itself: every stored value is the current value again
                        r.count('history_reloads_checked')
                        bad = self.values_equal(m, stored, specs, only=set(stored))
                        if bad:
                            how = 'configured-parameter' if bad[0] in given else 'parameter'
                            r.violation(f'C17/history/reload-does-not-restore/{how}', f'after loadParameters() {bad[0]} is {bad[1][0]!r}, the file holds {bad[1][1]!r}'[:250],
                                        dict(case, stored=stored))
                            return
                else:
                    ops.append(['restart'])
                    before = self.snapshot(m) if knows_disk and self.disk(d) == self.snapshot(m) else None
                    if before is not None:
                        for n_, w_ in given.items():
                            before[n_] = self.snapshot_one(specs[int(n_[1:])]['spec'], w_)
                    m = self.mk(cls, d, hcfg)
                    if rng.random() < 0.3:
                        # the device is offline at this start: the start-up writes of the restored values fail (logged by
                        # writeInitParams); later changes are saved all the same
                        ops[-1] = ['restart', 'device offline']
                        m.offline = True
                        r.count('history_restarts_with_failing_init_writes')
                    try:
                        m.writeInitParams()
                    finally:
                        m.offline = False
                    knows_disk = True
                    if before is not None:
                        r.count('history_restarts_checked')
                        bad = self.values_equal(m, before, specs)
                        if bad:
                            r.violation('C17/history/restart-differs-from-saved-values', f'{bad[0]}: {bad[1]}'[:200], dict(case, expected=before))
                            return
            except Exception as e:
                r.violation(f'C17/history/raises/{op}', f'{type(e).__name__}: {e}'[:200], case)
                return
        r.count('histories')
        r.case(('history', tuple(o[0] if o[0] != 'damage' else o[0] + ':' + o[1] for o in ops)), any(o[0] == 'damage' for o in ops))

    def snapshot_one(self, spec, w):
        """exported form of a valid wire value (the canonical JSON: floats for doubles)"""
        def canon(di, x):
            t = di['type']
            if t == 'double':
                return float(x)
            if t == 'array':
                return [canon(di['members'], e) for e in x]
            if t == 'tuple':
                return [canon(m_, e) for m_, e in zip(di['members'], x)]
            if t == 'struct':
                return {k: canon(di['members'][k], e) for k, e in x.items()}
            return x
        return json.loads(json.dumps(canon(spec, w)))

    def enumerate_first_start(self, cls, specs, case_base):
        """the very first start of a module (no stored file yet) saves its initial values: every operation of THAT save
        fails once as a crash and once as an I/O error - afterwards the file is absent or the complete snapshot, never
        empty or partial, and a later fault-free start works"""
        r = self.r
        d = os.path.join(self.root, 'first')

        def clean():
            shutil.rmtree(d, ignore_errors=True)
            os.makedirs(d)
            self.inj.reset()
        clean()
        try:
            m = self.mk(cls, d)
        except Exception as e:
            r.violation('C17/startup-fails/fresh-directory', f'{type(e).__name__}: {e}'[:200], case_base)
            return
        nops = self.inj.n
        full = self.disk(d)
        if not isinstance(full, dict):
            return          # nothing is saved by the constructor of this module
        for mode in ('crash', 'error'):
            for k in range(1, nops + 1):
                clean()
                self.inj.reset(at=k, mode=mode)
                try:
                    self.mk(cls, d)
                except self.Crash:
                    pass
                except Exception:
                    pass        # an I/O error at start-up may be reported: judged is what is on disk
                r.count('first_start_faults')
                what = self.inj.fired
                self.inj.reset()
                disk = self.disk(d)
                if disk is not None and disk != full:
                    kind = 'empty' if disk == ('CORRUPT', '') else 'partial-or-corrupt'
                    r.violation(f'C17/not-atomic/first-start/{mode}/{kind}', f'{mode} at operation {k} ({what}) of the first save of a new module leaves '
                                f'{str(disk)[:60]} on disk', dict(case_base, sub='first-start', op=k, opname=what))
                    return
                try:
                    m2 = self.mk(cls, d)
                    m2.saveParameters()
                    ok = self.disk(d) == self.snapshot(m2)
                except Exception as e:
                    ok = False
                if not ok:
                    r.violation(f'C17/first-start/later-start-fails/{mode}', f'after a {mode} at operation {k} of the first save the next start does not leave a complete file', dict(case_base, sub='first-start', op=k))
                    return

    def enumerate_restart(self, cls, specs, case_base):
        """a restart over an existing file with values that are not the defaults: every file-system operation of the start
        (loading, the save that follows) fails once as a crash and once as an I/O error - afterwards the file holds the
        snapshot it held before or the one a fault-free restart leaves, nothing in between"""
        r, rng = self.r, self.rng
        d = os.path.join(self.root, 'restart')
        shutil.rmtree(d, ignore_errors=True)
        os.makedirs(d)
        self.inj.reset()
        try:
            m = self.mk(cls, d)
            m.writeInitParams()
            for i, s_ in enumerate(specs):
                setattr(m, f'p{i}', gen_dt.to_py(s_['spec'], gen_dt.complete(s_['spec'], gen_dt.gen_valid(s_['spec'], rng, True), rng)))
            m.saveParameters()
        except Exception:
            return
        old = self.disk(d)
        if not isinstance(old, dict) or old != self.snapshot(m):
            return          # (a save that was skipped: values still waiting to be written - judged elsewhere)
        raw = self.target(d).read_bytes()
        self.inj.reset()
        try:
            self.mk(cls, d)
        except Exception as e:
            r.violation('C17/startup-fails/restart', f'{type(e).__name__}: {e}'[:200], dict(case_base, sub='restart'))
            return
        nops = self.inj.n
        new = self.disk(d)
        r.count('restarts_enumerated')
        for mode in ('crash', 'error'):
            for k in range(1, nops + 1):
                self.inj.reset()
                self.target(d).write_bytes(raw)
                self.inj.reset(at=k, mode=mode)
                try:
                    self.mk(cls, d)
                except self.Crash:
                    pass
                except Exception:
                    pass
                what = self.inj.fired
                self.inj.reset()
                r.count('restart_faults')
                disk = self.disk(d)
                if disk != old and disk != new:
                    r.violation(f'C17/not-atomic/restart/{mode}', f'{mode} at operation {k} ({what}) of a restart over a complete file leaves {str(disk)[:80]} on disk '
                                f'(before: {str(old)[:80]})', dict(case_base, sub='restart', op=k, opname=what, before=old, after_fault_free_restart=new))
                    return

    def enumerate_faults(self, cls, specs, d0, old, new, name, pyvalue, case_base):
        r = self.r
        d = os.path.join(self.root, 'work')

        def fresh():
            shutil.rmtree(d, ignore_errors=True)
            shutil.copytree(d0, d)
            self.inj.reset()
            m = self.mk(cls, d)
            m.writeInitParams()
            return m
        # count the operations of this save
        m = fresh()
        self.inj.reset()
        setattr(m, name, pyvalue)
        m.saveParameters()
        nops = self.inj.n
        opnames = list(self.inj.ops)
        if self.disk(d) != new:
            r.violation('C17/save-incomplete', 'after saveParameters() the file does not hold the current values',
                        dict(case_base, disk=self.disk(d), expected=new))
            return
        r.count('saves_enumerated')
        r.maximum('ops_per_save', nops)
        if nops == 0:
            r.inconclusive.append('a save performed no intercepted file-system operation (injector bypassed)')
            return
        shapes = tuple(gen_dt.tree_shape(s['spec']) for s in specs)
        for mode in ('crash', 'error'):
            for k in range(1, nops + 1):
                m = fresh()
                self.inj.reset(at=k, mode=mode)
                outcome = 'returned'
                try:
                    setattr(m, name, pyvalue)
                    m.saveParameters()
                except self.Crash:
                    outcome = 'crashed'
                except OSError:
                    outcome = 'oserror'
                except Exception as e:
                    outcome = 'exc:' + type(e).__name__
                fired = self.inj.fired
                case = dict(case_base, change={name: new[name]}, mode=mode, k=k, op=fired, ops=opnames)
                if fired is None:
                    r.count('fault_not_reached')
                    continue
                r.count('faults_injected_' + mode)
                r.count(f'fault_{mode}_{fired}')
                r.case((shapes, mode, fired, k), True)
                self.inj.reset()
                disk = self.disk(d)
                r.count('oracle_disk_old_or_new')
                if disk != old and disk != new:
                    kind = 'absent' if disk is None else 'partial-or-corrupt' if isinstance(disk, tuple) else 'other-snapshot'
                    r.violation(f'C17/not-atomic/{mode}/{kind}', f'after a {mode} at operation {k} ({fired}) the file is {kind}',
                                dict(case, disk=disk))
                    continue
                if mode == 'error':
                    r.count('oracle_retry')
                    try:
                        m.saveParameters()
                    except Exception as e:
                        r.violation('C17/retry-raises', f'the save after a failed save raises {type(e).__name__}', case)
                        continue
                    if self.disk(d) != new:
                        r.violation('C17/failed-save-not-retried', f'I/O error at operation {k} ({fired}): the next save leaves the old snapshot on disk',
                                    dict(case, disk=self.disk(d)))
                        continue
                # restart from whatever is on disk
                r.count('oracle_restart')
                on_disk = self.disk(d)
                try:
                    m2 = self.mk(cls, d)
                    bad = self.values_equal(m2, on_disk, specs)
                    if bad:
                        r.violation('C17/restart-differs', f'module re-created after {mode}: {bad[0]} {bad[1]}'[:200], case)
                except Exception as e:
                    r.violation('C17/startup-fails/after-fault', f'{type(e).__name__}: {e}'[:200], case)

    # ---------------------------------------------------------------- corruption
    def run_corruptions(self, specs, case_base):
        r, rng = self.r, self.rng
        cls = self.make_class(specs)
        d = os.path.join(self.root, 'corr')
        shutil.rmtree(d, ignore_errors=True)
        os.makedirs(d)
        self.inj.reset()
        m = self.mk(cls, d)
        m.writeInitParams()
        defaults = self.snapshot(m)
        v1 = {f'p{i}': gen_dt.complete(s['spec'], gen_dt.gen_valid(s['spec'], rng, True), rng) for i, s in enumerate(specs)}
        for i, s in enumerate(specs):
            setattr(m, f'p{i}', gen_dt.to_py(s['spec'], v1[f'p{i}']))
        m.saveParameters()
        good = self.target(d).read_bytes()
        snap = self.snapshot(m)
        cat = []
        step = max(1, len(good) // 60)
        for n in range(0, len(good), step):
            cat.append(('truncated', good[:n]))
        for _ in range(12):
            b = bytearray(good)
            pos = rng.randrange(len(b))
            b[pos] ^= 1 << rng.randrange(8)
            cat.append(('bitflip', bytes(b)))
        for kind, txt in (('json-list', b'[1, 2]'), ('json-number', b'5'), ('json-string', b'"x"'), ('json-null', b'null'),
                          ('json-true', b'true'), ('empty', b''), ('not-utf8', b'\xff\xfe{}'), ('json-nested-list', b'[{"p0": 1}]')):
            cat.append((kind, txt))
        # entry-level corruptions
        for i, s in enumerate(specs):
            name = f'p{i}'
            for _ in range(6):
                e = gen_dt.mutate(s['spec'], gen_dt.gen_valid(s['spec'], rng), rng)
                try:
                    doc = dict(snap)
                    doc[name] = e
                    cat.append(('entry', json.dumps(doc).encode()))
                except Exception:
                    pass
        doc = dict(snap)
        doc['zz_unknown'] = 1
        doc['description'] = 'x'
        cat.append(('unknown-key', json.dumps(doc).encode()))
        for kind, raw in cat:
            self.target(d).write_bytes(raw)
            r.count('corruptions')
            r.count('corruption_' + kind)
            case = dict(case_base, corruption=kind, file=raw[:400].decode('utf-8', 'replace'))
            try:
                parsed = json.loads(raw.decode('utf-8'))
            except Exception:
                parsed = None
            jkind = refdt.kind(parsed) if parsed is not None or raw.strip() == b'null' else 'unparsable'
            try:
                m2 = self.mk(cls, d)
            except Exception as e:
                key = kind if kind != 'entry' else 'entry'
                if kind in ('truncated', 'bitflip'):
                    key = f'{kind}-parses-as-{jkind}'
                r.violation(f'C17/startup-fails/{key}', f'construction with a {kind} file raises {type(e).__name__}: {e}'[:200], case)
                r.case((kind, jkind, 'raises'), True)
                continue
            r.case((kind, jkind, tuple(s['spec']['type'] for s in specs)), True)
            # entry oracle
            stored = parsed if isinstance(parsed, dict) else {}
            for i, s in enumerate(specs):
                name = f'p{i}'
                r.count('oracle_corrupt_entry')
                try:
                    got = json.loads(json.dumps(m2.parameters[name].export_value()))
                except Exception as ex:
                    where = self.entry_kind(s['spec'], stored.get(name))
                    r.violation(f'C17/unusable-entry-loaded/{where}', f'{name}: stored entry loaded although unusable; export raises {type(ex).__name__}',
                                dict(case, entry=stored.get(name), datainfo=gen_dt.public(s['spec'])))
                    continue
                if name not in stored:
                    if got != defaults[name]:
                        r.violation('C17/default-not-applied', f'{name}: no stored entry but value differs from the default', case)
                    continue
                e = stored[name]
                cl = refdt.classify_wire(s['spec'], e, stored=True)
                same = refdt.same_wire(s['spec'], e, got) if cl != 'reject' else False
                if cl == 'accept' and not same and got == defaults[name]:
                    r.violation(f'C17/usable-entry-ignored/{s["spec"]["type"]}', f'{name}: usable stored entry not restored',
                                dict(case, entry=e, got=got))
                elif cl == 'accept' and not same:
                    r.violation(f'C17/entry-restored-wrong/{s["spec"]["type"]}', f'{name}: restored value differs from the stored entry',
                                dict(case, entry=e, got=got))
                elif cl == 'reject' and got != defaults[name]:
                    where = self.entry_kind(s['spec'], e)
                    r.violation(f'C17/unusable-entry-loaded/{where}', f'{name}: unusable stored entry was not ignored',
                                dict(case, entry=e, got=got, datainfo=gen_dt.public(s['spec'])))
                elif cl == 'either' and not (same or got == defaults[name]):
                    r.violation(f'C17/entry-restored-wrong/{s["spec"]["type"]}', f'{name}: restored value is neither the entry nor the default',
                                dict(case, entry=e, got=got))

    @staticmethod
    def entry_kind(spec, e):
        w = refdt.first_reject(spec, e, stored=True)
        return f'{w[0]}-{w[1]}' if w else 'unknown'


def run_shard(shard):
    r = rec.Recorder(shard)
    rng = random.Random(f'C17/{shard["seed"]}/{shard["idx"]}')
    w = World(r, rng)
    try:
        for i in range(shard['n']):
            specs = w.gen_module()
            base = {'specs': specs, 'seed': [shard['seed'], shard['idx'], i]}
            w.run_module(specs, base)
            w.enumerate_first_start(w.make_class(specs), specs, base)
            w.enumerate_restart(w.make_class(specs), specs, base)
            w.run_corruptions(specs, base)
            for _ in range(6):
                w.run_history(specs, base)
    finally:
        w.close()
    return r.result()


def replay(case):
    r = rec.Recorder()
    rng = random.Random(repr(case.get('seed')))
    w = World(r, rng)
    try:
        for _ in range(3):
            w.run_module(case['specs'], {'specs': case['specs'], 'seed': case.get('seed')})
            w.run_corruptions(case['specs'], {'specs': case['specs'], 'seed': case.get('seed')})
    finally:
        w.close()
    return r.result()
