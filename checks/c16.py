"""C16 - communicator: atomic request/reply pairing, stale data discarded, self-healing

monitor: per-caller call/return records with unique command tokens + the device-side byte log with
virtual times + connection attempts + is_connected updates + reconnect callbacks, for the real
StringIO / BytesIO modules over the real AsynTcp on cooperative fake sockets, against a scripted
device, under the deterministic scheduler in virtual time."""
import random
import time

from vlib import rec

ID = 'C16'
LEVEL = 'exploration'
PROVISION = False
RULE = ('2..4 caller threads calling communicate / multicomm / writeline on one line- or byte-oriented communicator; scripted '
        'device: reply delay, chunking of its output (whole, 1-byte, 3-byte), fault scripts (late reply after the time-out, '
        'unsolicited garbage, silence from request k, disconnect before / inside / after a transaction, refusal of k '
        'reconnects); schedules seq / rw / pct with LINE yield points in communicate, multicomm, check_connection, '
        'read_is_connected, closeConnection, readline. distinct = schedule signature x scenario; non-trivial = scenario with '
        'a fault, a transaction or chunked output')
ASSUMPTIONS = ['every command is a unique token and the device answers "R:<token>", so a reply identifies its command',
               'a call must fail within max(timeout, 1 s receive period) + 0.5 s of virtual time counted from the moment its own command reached '
               'the device (callers queued on the communicator lock behind other timing-out calls legitimately wait longer)',
               'reconnect interval = the pollinterval of the communicator (10 s default, 3 s in the scenarios)']
REQUIRED = ['runs', 'calls_checked', 'replies_matched', 'transactions_checked', 'faulted_runs', 'reconnects_checked', 'chunked_runs',
            'stale_data_runs']

N = {'quick': 70, 'thorough': 8000}
TIMEOUT = 2.0


def plan(tier, seed, scale=1.0):
    return [{'idx': i, 'n': max(1, int(N[tier] * scale))} for i in range(16)]


class World:
    def __init__(self, r):
        from vlib import shimimport, detsched, fakes
        shimimport.load()
        self.D = detsched
        import frappy.io as IO
        import frappy.lib.asynconn as A
        import frappy.core as C
        from vlib import nodes
        self.r, self.IO, self.A, self.C, self.nodes = r, IO, A, C, nodes
        self.sockmod = fakes.install(A)
        self.watch = [IO.StringIO.communicate.func if hasattr(IO.StringIO.communicate, 'func') else None, IO.StringIO.multicomm.func,
                      IO.BytesIO.communicate.func, IO.BytesIO.multicomm.func, IO.IOBase.check_connection, IO.IOBase.read_is_connected,
                      IO.IOBase.closeConnection, IO.IOBase.connectStart, IO.IOBase.callCallbacks, A.AsynConn.readline, A.AsynConn.readbytes,
                      A.AsynTcp.flush_recv]
        self.nwatched = detsched.watch_lines(*[w for w in self.watch if w is not None])
        self.shim_ok = shimimport.verify()

    def gen(self, rng):
        kind = rng.choice(['string', 'string', 'bytes'])
        ncall = rng.choice([2, 3, 4])
        callers = []
        for i in range(ncall):
            ops = []
            for k in range(rng.choice([1, 2, 3])):
                q = rng.random()
                if q < 0.6:
                    ops.append(['comm'])
                elif q < 0.85:
                    ops.append(['multi', rng.choice([2, 3]), rng.choice([0, 0.05, 0.2])])
                else:
                    ops.append(['writeline'] if kind == 'string' else ['comm'])
            callers.append(ops)
        fault = rng.choice(['none', 'none', 'late-reply', 'garbage', 'silence', 'disconnect', 'disconnect-refuse', 'trailing-extra', 'disconnect-idle', 'noise', 'dribble'])
        if fault == 'noise' and kind != 'string':
            fault = 'none'
        scen = {'kind': kind, 'callers': callers, 'delay': rng.choice([0.0, 0.01, 0.3]), 'chunk': rng.choice([None, None, 1, 3]), 'fault': fault,
                'fault_at': rng.randint(0, 4), 'refuse': rng.choice([0, 1, 3]), 'devseed': rng.randrange(1 << 20)}
        # line terminator of the device (multi-byte terminators may be cut by the chunking: 'eol' = cut inside it)
        scen['eol'] = rng.choice(['\n', '\n', '\r\n', '\r\n', '\r', ';;\n']) if kind == 'string' else '\n'
        if kind == 'string' and len(scen['eol']) > 1 and rng.random() < 0.4:
            scen['chunk'] = 'eol'
        # reconnect attempts that take time before they are refused
        scen['refuse_takes'] = rng.choice([0, 0, 0.5, 2.0]) if fault == 'disconnect-refuse' else 0
        # byte communicators with variable-length replies: the tail is fetched by the getFullReply hook
        scen['varlen'] = kind == 'bytes' and rng.random() < 0.4
        # an identification exchange on every (re)connect: the reconnecting thread talks to the device itself
        scen['ident'] = rng.random() < 0.3 and not scen['varlen']
        scen['raising_cb'] = rng.random() < 0.4
        # a second communicator of the same class in the node, talking to another device that never fails: its reconnect
        # callbacks (registered under the same names) have nothing to do with this one's
        scen['bystander'] = rng.random() < 0.4
        if fault in ('disconnect', 'disconnect-refuse') and rng.random() < 0.5:
            # callers that keep calling while the communicator is disconnected and being reconnected (which takes a while)
            scen['pause'] = rng.choice([0.7, 1.6, 3.2])
            scen['accept_takes'] = rng.choice([0, 0.5, 0.5])
        scen['drop_inside'] = scen['varlen'] and fault in ('disconnect', 'disconnect-refuse') and rng.random() < 0.6
        # the driver's getFullReply hook rejects the reply right before the drop with an error without a message
        # (the last logged error is then an empty string when the connection is lost)
        scen['hook_rejects'] = scen['varlen'] and fault in ('disconnect', 'disconnect-refuse') and rng.random() < 0.4
        # pause before sending (line communicators): data arriving during the pause is stale for the command
        scen['wait_before'] = rng.choice([0, 0, 0.05, 0.3]) if kind == 'string' else 0
        if kind == 'string' and rng.random() < 0.15:
            # an unsolicited line 0.1 s after every second reply: with a pause longer than that it always arrives
            # before the next command is written.  single commands only (a transaction discards stale input once)
            scen['fault'] = 'delayed-extra'
            scen['wait_before'] = rng.choice([0, 0.3, 0.3])
            scen['chunk'] = None
            scen['callers'] = [[['comm'] for _ in ops] for ops in callers]
        if scen['fault'] == 'disconnect-idle' and rng.random() < 0.6:
            # the device closes the connection a little after the LAST command of the run: nobody is talking to it when the
            # connection ends, the loss is met by the probe that follows the quiet period (line and byte communicators alike)
            scen['callers'] = [[['comm'] for _ in ops] for ops in scen['callers']]
            scen['fault_at'] = sum(len(ops) for ops in scen['callers']) - 1
        if rng.random() < 0.12:
            # an outage with callers that keep calling: the device drops early, reconnects take a while and include an
            # identification exchange, 3..4 callers issue 4..6 single commands spread over the following seconds
            comm_only = rng.random() < 0.6
            scen.update(fault='disconnect', fault_at=rng.choice([0, 1, 2]), varlen=False, drop_inside=False, hook_rejects=False, ident=True, refuse_takes=0,
                        accept_takes=rng.choice([0.5, 1.0]), pause=rng.choice([0.5, 0.8, 1.1]), chunk=None, wait_before=0, delay=rng.choice([0.0, 0.01]),
                        callers=[[['comm'] if comm_only or rng.random() < 0.7 else ['multi', 2, 0.05] for _ in range(rng.choice([4, 5, 6]))] for _ in range(rng.choice([3, 4]))])
        return scen

    # ---------------------------------------------------------------- scripted device
    def make_device(self, scen, dev):
        D = self.D
        rng = random.Random(scen['devseed'])

        def serve(sock):
            s = D.CURRENT
            buf = b''
            eolb = scen.get('eol', '\n').encode()
            while True:
                data = sock.peer_recv()
                if data == b'' and sock.closed:
                    return
                if not data:
                    continue
                dev['log'].append((s.now, 'rx', data))
                buf += data
                while True:
                    if scen['kind'] == 'string':
                        if eolb not in buf:
                            break
                        cmd, buf = buf.split(eolb, 1)
                    else:
                        if len(buf) < 8:
                            break
                        cmd, buf = buf[:8], buf[8:]
                    if scen.get('ident') and cmd in (b'IDN', b'QIDN____'):
                        # the identification exchange of a (re)connect: answered at once, outside the fault script
                        dev['idents'] = dev.get('idents', 0) + 1
                        sock.peer_send(b'R:IDN' + eolb if scen['kind'] == 'string' else b'RIDN____')
                        continue
                    dev['nreq'] += 1
                    n = dev['nreq']
                    dev['cmds'].append((s.now, cmd))
                    fault = scen['fault']
                    if cmd.startswith(b'W'):
                        continue          # writeline: no reply expected
                    reply = (b'R:' + cmd + eolb) if scen['kind'] == 'string' else (b'R' + cmd[1:])
                    if fault == 'dribble' and n == scen['fault_at'] + 1:
                        # a babbling device: the beginning of a reply, byte by byte with pauses shorter than the time-out, never
                        # the rest - the call ends at ITS time-out all the same (and frees the communicator for the others)
                        part = reply[:-len(eolb) - 1] if scen['kind'] == 'string' else reply[:5]
                        for b_ in part[:5]:
                            D.vsleep(TIMEOUT * 0.6)
                            if sock.closed or not sock.peer_send(bytes([b_])):
                                break
                            dev['stale'].append((s.now, bytes([b_])))
                        dev['dribbled'] = dev.get('dribbled', 0) + 1
                        continue
                    if fault == 'noise' and n == scen['fault_at'] + 1:
                        # line noise: a complete, terminated line with bytes that can not be decoded in the configured encoding
                        reply = b'R:\xff\xfe' + cmd + b'\x80' + eolb
                        dev['noisy'] = dev.get('noisy', 0) + 1
                    if scen.get('hook_rejects') and n == scen['fault_at'] and not dev['dropped']:
                        reply = b'X' + reply[1:]       # a reply the driver's hook does not accept
                        dev['rejected'] = dev.get('rejected', 0) + 1
                    if scen.get('varlen') and not (fault == 'silence' and n > scen['fault_at']) and \
                            not (fault in ('disconnect', 'disconnect-refuse') and n > scen['fault_at'] and not dev['dropped']) and \
                            not (fault == 'late-reply' and n == scen['fault_at'] + 1):
                        # header now, the tail a little later (the client must keep the exchange together)
                        if scen['delay']:
                            D.vsleep(scen['delay'])
                        sock.peer_send(reply)
                        D.vsleep(0.05)
                        sock.peer_send(cmd[1:5])
                        continue
                    if fault == 'silence' and n > scen['fault_at']:
                        continue
                    if fault in ('disconnect', 'disconnect-refuse') and n > scen['fault_at'] and not dev['dropped']:
                        dev['dropped'] = s.now
                        dev['dropped_cmd'] = cmd
                        dev['timeline'].append(('drop',))
                        if fault == 'disconnect-refuse':
                            dev['refuse_left'] = scen['refuse']
                        if scen.get('drop_inside'):
                            # the connection is lost INSIDE a variable-length reply: header sent, the tail never comes
                            sock.peer_send(reply)
                            dev['dropped_inside'] = True
                        sock.peer_close()
                        return
                    if fault == 'late-reply' and n == scen['fault_at'] + 1:
                        D.vsleep(TIMEOUT + 1.3)           # arrives after the caller gave up: stale for the next command
                        sock.peer_send(reply)
                        dev['stale'].append((s.now, reply))
                        continue
                    if fault == 'trailing-extra' and scen['kind'] == 'string' and n % 2:
                        reply += b'EXTRA' + eolb        # an unsolicited line right behind the reply, in the same segment
                        dev['stale'].append((s.now + 1e9, b'EXTRA' + eolb))
                    if scen['delay']:
                        D.vsleep(scen['delay'])
                    if fault == 'delayed-extra' and n % 2:
                        sock.peer_send(reply)
                        D.vsleep(0.1)
                        extra = b'EXTRA%d' % n + eolb
                        sock.peer_send(extra)
                        dev['stale'].append((s.now, extra))
                        continue
                    if fault == 'disconnect-idle' and n > scen['fault_at'] and not dev['dropped']:
                        # the device answers this command and closes the connection a little later, while nobody talks to it
                        sock.peer_send(reply)
                        D.vsleep(0.2)
                        dev['dropped'] = s.now
                        dev['dropped_idle'] = True
                        dev['timeline'].append(('drop',))
                        sock.peer_close()
                        return
                    if scen['chunk'] == 'eol':
                        # every terminator is cut in two
                        pieces = reply.split(eolb)
                        for piece in pieces[:-1]:
                            sock.peer_send(piece + eolb[:1])
                            sock.peer_send(eolb[1:])
                        if pieces[-1]:
                            sock.peer_send(pieces[-1])
                    elif scen['chunk']:
                        for i in range(0, len(reply), scen['chunk']):
                            sock.peer_send(reply[i:i + scen['chunk']])
                    else:
                        sock.peer_send(reply)

        def listener(sock):
            s = D.CURRENT
            dev['attempts'].append(s.now)
            me = s.me()
            dev['attempt_by'].append('poller' if me is not None and '__pollThread' in me.name else 'caller')
            dev.setdefault('attempt_thread', []).append(me.name if me is not None else '?')
            if dev['refuse_left'] > 0:
                dev['refuse_left'] -= 1
                if scen.get('refuse_takes'):
                    D.vsleep(scen['refuse_takes'])       # a slow refusal (time-out of the connect instead of an immediate reset)
                raise ConnectionRefusedError(111, 'Connection refused')
            if scen.get('accept_takes') and dev['dropped']:
                D.vsleep(scen['accept_takes'])           # a reconnect that takes a while before it succeeds
            dev['connected'].append(s.now)
            dev['socks'].append(sock)
            D.CoThread(target=serve, args=(sock,), name=f'device{len(dev["connected"])}').start()
        return listener

    # ---------------------------------------------------------------- run
    def run(self, scen, strategy, seed):
        D, C, IO = self.D, self.C, self.IO
        dev = {'log': [], 'cmds': [], 'nreq': 0, 'attempts': [], 'connected': [], 'dropped': None, 'refuse_left': 0, 'stale': [], 'socks': [], 'attempt_by': []}
        self.sockmod.listeners.clear()
        del self.sockmod.attempts[:]
        self.sockmod.listen('devhost', 5001, self.make_device(scen, dev))
        if scen.get('bystander'):
            self.sockmod.listen('otherhost', 5002, lambda sock: None)      # accepts, never talks, never fails
        base = IO.StringIO if scen['kind'] == 'string' else IO.BytesIO
        updates = []
        cbcalls = []
        results = {}
        timeline = dev['timeline'] = []       # order of: drop by the device, is_connected updates, returns of calls
        info = {'timeline': timeline}

        def root():
            s = D.CURRENT
            ns = {'__module__': __name__}
            if scen.get('varlen'):
                from frappy.errors import CommunicationFailedError as CommFailed

                def getFullReply(self, request, header):
                    tail = self.readBytes(4)
                    if header[:1] == b'X':
                        raise CommFailed('')
                    return header + tail
                ns['getFullReply'] = getFullReply
            iocls = type('IO16', (base,), ns)
            cfg = {'io': {'cls': iocls, 'description': 'communicator', 'uri': 'tcp://devhost:5001', 'timeout': {'value': TIMEOUT}, 'pollinterval': {'value': 3}}}
            if scen['kind'] == 'string' and scen.get('eol', '\n') != '\n':
                cfg['io']['end_of_line'] = scen['eol']
            if scen.get('wait_before'):
                cfg['io']['wait_before'] = {'value': scen['wait_before']}
            if scen.get('ident'):
                cfg['io']['identification'] = [('IDN', 'R:IDN')] if scen['kind'] == 'string' else [('Q I D N _ _ _ _', 'R I D N _ _ _ _')]
            if scen.get('bystander'):
                cfg['io2'] = {'cls': type('IO16b', (base,), {'__module__': __name__}), 'description': 'another communicator',
                              'uri': 'tcp://otherhost:5002', 'pollinterval': {'value': 3}}
            node = self.nodes.Node(cfg, testonly=False).build()
            io = node.secnode.modules['io']
            info['io'] = io
            io.addCallback('is_connected', lambda v, *a: (updates.append((s.now, bool(v))), timeline.append(('upd', bool(v)))))
            io.registerReconnectCallback('cb1', lambda: cbcalls.append((s.now, 'cb1')) or True)
            if scen.get('raising_cb'):
                # a callback registered between the two fails: it is dropped, the others run all the same
                def cbx():
                    cbcalls.append((s.now, 'cbx'))
                    raise ValueError('reconnect callback fails')
                io.registerReconnectCallback('cbx', cbx)
            io.registerReconnectCallback('cb2', lambda: cbcalls.append((s.now, 'cb2')) or True)
            if scen.get('bystander'):
                io2 = node.secnode.modules['io2']
                io2.registerReconnectCallback('cb1', lambda: cbcalls.append((s.now, 'other-cb1')) or True)
                io2.registerReconnectCallback('cb2', lambda: cbcalls.append((s.now, 'other-cb2')) or True)
            tokn = [0]

            def mktok(i):
                tokn[0] += 1
                t = f'c{i}t{tokn[0]:03d}'
                return t if scen['kind'] == 'string' else ('Q' + t).encode()[:8].ljust(8, b'_')

            def caller(i):
                for j, op in enumerate(scen['callers'][i]):
                    if j and scen.get('pause'):
                        D.vsleep(scen['pause'] * (1 + 0.13 * i))
                    rec_ = {'op': op[0], 't_call': s.now}
                    results[(i, j)] = rec_
                    try:
                        if op[0] == 'comm':
                            tok = mktok(i)
                            rec_['toks'] = [tok]
                            rec_['reply'] = io.communicate(tok) if scen['kind'] == 'string' else io.communicate(tok, 8)
                        elif op[0] == 'writeline':
                            tok = 'W' + mktok(i)
                            rec_['toks'] = [tok]
                            io.writeline(tok)
                            rec_['reply'] = None
                        else:
                            toks = [mktok(i) for _ in range(op[1])]
                            rec_['toks'] = toks
                            rec_['delay'] = op[2]
                            if scen['kind'] == 'string':
                                rec_['reply'] = io.multicomm([(t, True, op[2]) for t in toks])
                            else:
                                rec_['reply'] = io.multicomm([(t, 8, op[2]) for t in toks])
                    except Exception as e:
                        rec_['error'] = (type(e).__name__, str(e)[:120])
                    rec_['t_ret'] = s.now
                    timeline.append(('ret', (i, j)))
            D.vsleep(0.01)
            ths = [D.CoThread(target=caller, args=(i,), name=f'caller{i}') for i in range(len(scen['callers']))]
            for t in ths:
                t.start()
            for t in ths:
                t.join()
            info['t_callers_done'] = s.now
            D.vsleep(25)          # several reconnect intervals
            if scen['fault'] == 'garbage' and dev['socks'] and not dev['socks'][-1].closed:
                g = b'GARBAGE' + scen.get('eol', '\n').encode() if scen['kind'] == 'string' else b'GGGGGGGG'
                dev['socks'][-1].peer_send(g)        # unsolicited data while nobody talks to the device
                dev['stale'].append((s.now, g))
                D.vsleep(0.2)
            info['t_end'] = s.now
            info['connected_at_end'] = bool(io.is_connected)
            # polling continues: a communicate after the healing period works
            try:
                tok = mktok(9)
                rep = io.communicate(tok) if scen['kind'] == 'string' else io.communicate(tok, 8)
                info['final'] = (tok, rep)
            except Exception as e:
                info['final_error'] = (type(e).__name__, str(e)[:100])
                if scen['fault'] == 'disconnect-idle':
                    # the loss of an idle connection is noticed by this very call: healing is judged on a second one
                    info['first_probe_error'] = info.pop('final_error')
                    D.vsleep(10)
                    info['connected_at_end'] = bool(io.is_connected)
                    try:
                        tok = mktok(8)
                        rep = io.communicate(tok) if scen['kind'] == 'string' else io.communicate(tok, 8)
                        info['final'] = (tok, rep)
                    except Exception as e2:
                        info['final_error'] = (type(e2).__name__, str(e2)[:100])
            node.secnode.shutdown_modules()
        s = D.Sched(strategy, seed, horizon=400, grace=10, max_steps=400000)
        s.run(root, wall_timeout=90)
        return s, dev, results, info, updates, cbcalls

    # ---------------------------------------------------------------- judge
    def expect_reply(self, scen, tok):
        if scen['kind'] == 'string':
            return 'R:' + tok
        return b'R' + tok[1:] + (tok[1:5] if scen.get('varlen') else b'')

    def mispair(self, scen, dev, cmdtime, toks, got, want):
        """classify a wrong reply.  data the device emitted BEFORE the command was sent must never be returned
        (violation); data that arrives after the command was sent (a late reply of an earlier command) can not be
        told apart by a communicator without message ids: not judged"""
        def norm(x):
            if scen['kind'] == 'string' and isinstance(x, bytes):
                eolb = scen.get('eol', '\n').encode()
                return (x[:-len(eolb)] if x.endswith(eolb) else x).decode('latin1')
            return x
        for t, g, w_ in zip(toks, got, want):
            if g == w_:
                continue
            sent = cmdtime.get(t)
            for ts, data in dev['stale']:
                if norm(data) == g:
                    if sent is not None and ts < sent - 1e-9:
                        return 'C16/stale-data-returned-as-reply'
                    return None
            if scen['fault'] in ('late-reply', 'dribble') or (scen['fault'] == 'trailing-extra' and scen['chunk']) or \
                    (scen['fault'] == 'delayed-extra' and scen.get('wait_before', 0) < 0.2):
                return None       # knock-on effect of data arriving after a command was written (later replies are shifted by one)
            return 'C16/reply-of-another-command'
        if len(got) != len(want):
            return 'C16/transaction-replies-mismatch'
        return None

    def judge(self, scen, s, dev, results, info, updates, cbcalls, strategy, seed):
        r = self.r
        case = {'scenario': scen, 'strategy': list(strategy), 'seed': seed}
        r.count('runs')
        if scen['fault'] != 'none':
            r.count('faulted_runs')
        if scen['chunk']:
            r.count('chunked_runs')
        if scen['fault'] in ('late-reply', 'garbage', 'delayed-extra'):
            r.count('stale_data_runs')
        if s.status in ('watchdog', 'budget'):
            r.count('runs_set_aside_' + s.status)
            if s.status == 'watchdog':
                r.inconclusive.append('wall-clock watchdog fired')
            return
        multi = any(op[0] == 'multi' for c in scen['callers'] for op in c)
        r.case((strategy[0], s.signature(), scen['kind'], scen['fault'], scen['chunk'], scen.get('eol')), scen['fault'] != 'none' or multi or bool(scen['chunk']))
        if r.want_sample() and scen['fault'] != 'none':
            r.sample({'scenario': scen, 'device_commands': [(round(t - self.D.T0, 3), c.decode('latin1')) for t, c in dev['cmds']][:10],
                      'results': {f'{k[0]}.{k[1]}': {kk: (vv if not isinstance(vv, bytes) else vv.decode('latin1')) for kk, vv in v.items() if kk in ('op', 'error')} for k, v in results.items()}})
        if s.status != 'ok':
            status_ = s.status
            if status_ == 'horizon' and scen.get('bystander') and any(i_ == id(getattr(info.get('io'), '_lock', None)) for n, i_, o in s.lock_waits):
                # the poll thread of the second communicator keeps the run alive: the same stand-still ends at the horizon
                status_ = 'deadlock'
            key_ = f'C16/run-{status_}'
            if status_ == 'deadlock':
                # mechanism: which operation holds the communicator lock while it waits (for the access lock of a reconnect)
                # somebody waits for the communicator lock: who holds it (while waiting himself for the access lock)?
                lid = id(getattr(info.get('io'), '_lock', None))
                held = [o for n, i_, o in s.lock_waits if i_ == lid]
                oname = (held[0] if held else None) or 'nobody'
                if oname.startswith('caller'):
                    cur = [v['op'] for k, v in sorted(results.items()) if k[0] == int(oname[6:]) and 't_ret' not in v]
                    oname = 'a-' + (cur[0] if cur else 'finished') + '-call'
                elif '__pollThread' in oname:
                    oname = 'the-poller'
                key_ += f'/communicator-lock-held-by-{oname}' + ('/with-identification' if scen.get('ident') else '')
            r.violation(key_, f'{s.alive[:4]}', case)
            return
        if s.escaped:
            r.violation('C16/exception-escapes-thread', f'{s.escaped[0][:2]}', dict(case, traceback=s.escaped[0][2]))
            return
        if scen.get('bystander'):
            r.count('runs_with_a_second_communicator')
            foreign = [n for t, n in cbcalls if n.startswith('other-')]
            if foreign:
                r.violation('C16/reconnect-callbacks/of-a-communicator-that-did-not-reconnect',
                            f'the callbacks {foreign} registered on the second communicator ran although its connection never failed', case)
                return
        faulty = scen['fault'] in ('silence', 'disconnect', 'disconnect-refuse', 'late-reply', 'disconnect-idle', 'noise', 'dribble')
        if dev.get('dribbled'):
            r.count('incomplete_replies_arriving_byte_by_byte', dev['dribbled'])
        if dev.get('noisy'):
            r.count('replies_with_undecodable_bytes', dev['noisy'])
        cmdtime = cmdtime_final(dev, scen)
        for key, rec_ in sorted(results.items()):
            r.count('calls_checked')
            if 't_ret' not in rec_:
                r.violation('C16/caller-never-returns', f'{key}', case)
                return
            toks = rec_.get('toks', [])
            if 'reply' in rec_:
                rep = rec_['reply']
                want = [self.expect_reply(scen, t) for t in toks]
                got = [rep] if rec_['op'] == 'comm' else list(rep or [])
                if rec_['op'] in ('comm', 'multi'):
                    if got != want:
                        key_ = self.mispair(scen, dev, cmdtime, toks, got, want)
                        if key_:
                            r.violation(key_, f'{key}: commands {toks!r} got {got!r}', case)
                            return
                        r.count('mispairings_explained_by_late_data')
                    else:
                        r.count('replies_matched')
                if rec_['op'] == 'multi':
                    # ---- contiguity and delays on the device side
                    r.count('transactions_checked')
                    seq = [(t, c) for t, c in dev['cmds']]
                    names = [c if scen['kind'] == 'bytes' else c.decode('latin1') for _, c in seq]
                    idx = [names.index(t) for t in toks if t in names]
                    if len(idx) == len(toks):
                        if idx != list(range(idx[0], idx[0] + len(toks))):
                            r.violation('C16/transaction-interleaved', f'{key}: device saw {names[idx[0]:idx[-1] + 1]!r} inside the transaction {toks!r}', case)
                            return
                        times = [cmdtime.get(t, seq[i][0]) for t, i in zip(toks, idx)]      # when the client wrote each command
                        need = rec_['delay']
                        gaps = [b - a for a, b in zip(times, times[1:])]
                        if need and any(g < need - 1e-6 for g in gaps):
                            r.violation(f'C16/transaction-delay-not-honoured/{scen["kind"]}', f'{key}: requested {need} s between commands, device saw gaps {[round(g, 4) for g in gaps]}', case)
                            return
                        # the delay after the LAST command belongs to the transaction as well: nobody else's command follows sooner
                        if need and idx[-1] + 1 < len(seq):
                            nxt = names[idx[-1] + 1]
                            tn = cmdtime.get(nxt)
                            if tn is not None and nxt not in (b'IDN', 'IDN', b'QIDN____'):
                                r.count('transaction_trailing_delays_checked')
                                if tn - times[-1] < need - 1e-6:
                                    r.violation(f'C16/transaction-delay-not-honoured/after-the-last-command/{scen["kind"]}',
                                                f'{key}: requested {need} s after each command, the next command ({nxt!r}) was written {tn - times[-1]:.4f} s after the last one of the transaction', case)
                                    return
            else:
                cls, text = rec_['error']
                if not faulty:
                    r.violation(f'C16/call-fails-without-fault/{cls}', f'{key}: {cls}: {text}', case)
                    return
                if cls not in ('SilentCommunicationFailedError', 'CommunicationFailedError', 'CommunicationSilentError', 'SilentError'):
                    r.violation(f'C16/wrong-error-class/{cls}', f'{key}: {cls}: {text}', case)
                    return
                # time-out counted from the moment the caller's own (last sent) command reached the device
                sent = [cmdtime[t] for t in toks if t in cmdtime]
                if sent:
                    waited = rec_['t_ret'] - max(sent)
                    bound = max(TIMEOUT, 1.0) + 0.5 + (rec_.get('delay') or 0)
                    if scen['fault'] == 'dribble':
                        bound += 1.0      # the deadline is looked at when a receive attempt (1 s) ends empty: the last byte may arrive just before it
                    if waited > bound:
                        r.violation('C16/call-exceeds-timeout', f'{key}: returned {waited:.2f} s after its command reached the device (bound {bound:.2f})', case)
                        return
        # ---- connection state and self healing
        if scen['fault'] in ('disconnect', 'disconnect-refuse', 'disconnect-idle') and dev['dropped']:
            if dev.get('dropped_idle'):
                r.count('idle_disconnects')
            r.count('reconnects_checked')
            if dev.get('dropped_inside'):
                r.count('drops_inside_a_variable_length_reply')
            if dev.get('rejected'):
                r.count('drops_after_a_reply_rejected_without_message')
            if dev.get('idents', 0) > 1:
                r.count('reconnects_with_identification_exchange')
            after = [u for u in updates if u[0] >= dev['dropped']]
            if not any(not v for _, v in after):
                # nobody may have talked to the device after the drop: then the loss is not yet visible - only judged if a call failed
                if any('error' in v and v['t_ret'] >= dev['dropped'] for v in results.values()):
                    r.violation('C16/disconnect-not-announced', f'is_connected updates after the drop: {after}', case)
                    return
            # a call that failed because the connection was lost has seen the loss: the state is visible from then on
            # (not only when the next call happens to talk to the device)
            # (decided on the order of events, not on the clock: the call whose command the device dropped the connection on)
            tl = info['timeline']
            seen_by = [k for k, v in results.items() if 'error' in v and dev.get('dropped_cmd') in [x if isinstance(x, bytes) else x.encode() for x in v.get('toks', [])]]
            if seen_by and ('ret', seen_by[0]) in tl and ('drop',) in tl:
                r.count('calls_that_saw_the_loss')
                between = tl[tl.index(('drop',)):tl.index(('ret', seen_by[0]))]
                if ('upd', False) not in between:
                    where = 'inside-a-variable-length-reply' if dev.get('dropped_inside') else 'plain'
                    r.violation(f'C16/disconnect-not-announced/by-the-failing-call/{where}', f'call {seen_by[0]} failed on the lost connection, events between the drop and '
                                f'its return: {between[:8]}; is_connected updates after the drop: {[(round(t - dev["dropped"], 2), v) for t, v in after]}', case)
                    return
            att = [a for a in dev['attempts'] if a > dev['dropped']]
            who = [w_ for a, w_ in zip(dev['attempts'], dev['attempt_by']) if a > dev['dropped']]
            for src in ('caller', 'poller'):
                mine = [a for a, w_ in zip(att, who) if w_ == src]
                if src == 'poller':
                    # the poll thread keeps a fixed grid: after a slow or delayed attempt (a slow refusal, a poll that had to wait
                    # for the access lock held by a transaction) the next one may follow at the next grid point, less than one
                    # interval after the START of the previous one (catching up, as for every late poll).
                    # judged on the rate: never more than two attempts started within one interval
                    if any(c - a < 3 - 0.05 for a, c in zip(mine, mine[2:])):
                        r.violation('C16/reconnect-attempts-too-frequent/by-pollers', f'reconnect interval 3 s, three attempts of the poller within one interval: {[round(a - dev["dropped"], 3) for a in mine]}', case)
                        return
                    continue
                # the listed check-then-store race: two callers pass the time check in the same instant (the second attempt may
                # then start later: it waits for the access lock the first one holds).  An attempt of a call that was ISSUED some
                # time after another attempt had started is another mechanism
                names = [n_ for a_, w_, n_ in zip(dev['attempts'], dev['attempt_by'], dev.get('attempt_thread', [])) if a_ > dev['dropped'] and w_ == src]

                def issued(a_, n_):
                    # when did the call that made this attempt begin?
                    ts = [v['t_call'] for k, v in results.items() if n_ == f'caller{k[0]}' and v['t_call'] <= a_ + 1e-9 and v.get('t_ret', 1e99) >= a_ - 1e-9]
                    return max(ts) if ts else a_
                # (the time check of check_connection() uses the moment of the CHECK: a call that passed it in the same instant
                # as another one and then waited 2 s for the access lock before its own - slowly refused - attempt has stored a
                # time stamp that is 2 s older than its attempt.  The next attempt is measured from the earliest moment the
                # previous one can have stored its stamp: the begin of the call that made it)
                late = [(a, b) for ((a, b), nb), na in zip(zip(zip(mine, mine[1:]), names[1:]), names)
                        if b - a < 3 - 0.05 and issued(b, nb) - a > 1e-3 and b - issued(a, na) < 3 - 0.05]
                if src == 'caller' and late:
                    r.violation(f'C16/reconnect-attempts-too-frequent/by-{src}s/some-time-after-another-attempt', f'reconnect interval 3 s, attempts by {src}s at '
                                f'{[round(a - dev["dropped"], 3) for a in mine]}', case)
                    return
                if any(b - a < 3 - 0.05 for a, b in zip(mine, mine[1:])):
                    r.violation(f'C16/reconnect-attempts-too-frequent/by-{src}s', f'reconnect interval 3 s, attempts by {src}s at {[round(a - dev["dropped"], 3) for a in mine]}', case)
                    return
            gaps = [b - a for a, b in zip(att, att[1:])]
            if any(g < 3 - 0.05 for g in gaps):
                r.violation('C16/reconnect-attempts-too-frequent', f'reconnect interval 3 s, attempts at {[round(a - dev["dropped"], 3) for a in att]} by {who}', case)
                return
            rec_times = [c for c in dev['connected'] if c > dev['dropped']]
            if rec_times and info.get('connected_at_end'):
                last = rec_times[-1]
                calls = [n for t, n in cbcalls if t >= last and n != 'cbx' and not n.startswith('other-')]
                if sorted(calls) != ['cb1', 'cb2']:
                    r.violation('C16/reconnect-callbacks', f'after the reconnect at +{last - dev["dropped"]:.2f} s the callbacks ran {calls}', case)
                    return
            if not info.get('connected_at_end') and dev['dropped'] < info['t_end'] - 15:
                r.violation('C16/not-healed', f'25 s after the calls the communicator is still disconnected; attempts {[round(a - dev["dropped"], 2) for a in att]}', case)
                return
            if 'final_error' in info and dev['dropped'] < info['t_end'] - 15:
                r.violation('C16/communication-does-not-resume', f'{info["final_error"]}', case)
                return
        if 'final' in info and info['final'][1] != self.expect_reply(scen, info['final'][0]):
            key_ = self.mispair(scen, dev, cmdtime_final(dev, scen), [info['final'][0]], [info['final'][1]], [self.expect_reply(scen, info['final'][0])])
            if key_:
                r.violation(key_, f'final probe {info["final"]}', case)
                return


def cmdtime_final(dev, scen):
    """token -> virtual time at which the client wrote it to the socket"""
    out = {}
    for sock in dev['socks']:
        for t, data in sock.sent_log:
            if scen['kind'] == 'string':
                for line in data.split(scen.get('eol', '\n').encode()):
                    if line:
                        out.setdefault(line.decode('latin1'), t)
            else:
                for i in range(0, len(data) - 7, 8):
                    out.setdefault(data[i:i + 8], t)
    return out


def run_shard(shard):
    r = rec.Recorder(shard)
    rng = random.Random(f'C16/{shard["seed"]}/{shard["idx"]}')
    w = World(r)
    if not all(w.shim_ok.values()):
        r.inconclusive.append(f'shim binding incomplete: {w.shim_ok}')
        return r.result()
    r.maximum('line_watched_code_objects', w.nwatched)
    for i in range(shard['n']):
        scen = w.gen(rng)
        seed = rng.randrange(1 << 30)
        strat = [('seq',), ('rw', 0.1), ('pct', 2, 400), ('rw', 0.3)][i % 4]
        out = w.run(scen, strat, seed)
        w.judge(scen, *out, strat, seed)
    w.D.unwatch_all()
    return r.result()


def replay(case):
    r = rec.Recorder()
    w = World(r)
    strat = tuple(case['strategy'])
    out = w.run(case['scenario'], strat, case['seed'])
    w.judge(case['scenario'], *out, strat, case['seed'])
    w.D.unwatch_all()
    return r.result()
