"""C06 - the node's self-description is true of its behaviour

monitor: the describe report of generated nodes is compared with the generator's ground truth, and
everything it states is cross-checked against the behaviour of the same node (replies, updates, driver
log); shipped configurations get the self-consistency clauses."""
import contextlib
import io
import json
import os
import random

from vlib import rec, refdt, gen_dt, modgen

ID = 'C06'
LEVEL = 'exploration'
RULE = ('generated nodes (vlib.modgen: export flags, custom wire names, constants, read-only, units with $, interface '
        'classes) and the shipped configurations that build offline in test mode; per node: describe twice, then for '
        'every described and every undescribed name the request kinds read / change / do / activate with payloads from '
        'the described datainfo\'s boundary catalogue. distinct = (clause, datatype kind / request kind, outcome); '
        'non-trivial = every probe that is not a plain read of a described parameter')
ASSUMPTIONS = ['ground truth for generated nodes = generator spec; shipped nodes: self-consistency clauses only',
               'client view = frappy.datatypes.get_datatype(described datainfo); payload verdicts in the tolerance band are not compared',
               'on shipped nodes change probes use only payloads the described datainfo rejects (never drives simulated hardware)',
               'parameters with limit parameters / check hooks may refuse more than the datainfo says (one-sided comparison)']
REQUIRED = ['generated_nodes', 'shipped_nodes', 'described_params_checked', 'verdict_comparisons', 'emitted_values_checked', 'garbage_assignments',
            'undescribed_probes', 'readonly_probes', 'constant_reads', 'structure_comparisons']

N = {'quick': 12, 'thorough': 700}
SHIPPED_DIR = None


def plan(tier, seed, scale=1.0):
    return [{'idx': i, 'n': max(1, int(N[tier] * scale))} for i in range(16)]


INHERITED = {
    'Module': {},
    'Readable': {'status': 'param', 'pollinterval': 'param'},
    'Writable': {'status': 'param', 'pollinterval': 'param'},
    'Drivable': {'status': 'param', 'pollinterval': 'param', 'stop': 'cmd'},
}


def strict_dumps(x):
    return json.dumps(x, allow_nan=False, sort_keys=True)


def norm_datainfo(di):
    """drop keys that only restate defaults"""
    if not isinstance(di, dict):
        return di
    t = di.get('type')
    out = {}
    for k, v in di.items():
        if k.startswith('_'):
            continue
        if (t, k) in (('array', 'minlen'), ('string', 'minchars'), ('blob', 'minbytes')) and v == 0:
            continue
        if (t, k) == ('string', 'isUTF8') and v is False:
            continue
        if k == 'unit' and v == '':
            continue
        if k == 'fmtstr' and v == '%g':
            continue
        if t == 'scaled' and k == 'absolute_resolution' and v == di.get('scale'):
            continue
        if k == 'members':
            if isinstance(v, dict) and t in ('struct',):
                v = {n: norm_datainfo(m) for n, m in v.items()}
            elif isinstance(v, list):
                v = [norm_datainfo(m) for m in v]
            elif isinstance(v, dict):
                v = norm_datainfo(v)
        if t == 'struct' and k == 'optional':
            if set(v) == set(di.get('members', {})):
                continue          # "all members optional" is expressed by the absent key
            v = sorted(v)
        if isinstance(v, float) and v == int(v) and abs(v) < 1e15 and t != 'double':
            v = int(v)
        if t == 'double' and k in ('min', 'max'):
            v = float(v)
        out[k] = v
    return out


def with_main_unit(spec, unit):
    if isinstance(spec, dict):
        out = {}
        for k, v in spec.items():
            if k == 'unit' and isinstance(v, str) and unit:
                v = v.replace('$', unit)
            elif k == 'members':
                v = with_main_unit(v, unit) if not isinstance(v, dict) or 'type' in v else {n: with_main_unit(m, unit) for n, m in v.items()}
            out[k] = v
        return out
    if isinstance(spec, list):
        return [with_main_unit(v, unit) for v in spec]
    return spec


class World:
    def __init__(self, r, rng):
        from vlib import env, nodes
        from frappy.datatypes import get_datatype
        from frappy.errors import SECoPError, BadValueError
        self.r, self.rng = r, rng
        self.nodes, self.env = nodes, env
        self.get_datatype = get_datatype
        self.SECoPError, self.BadValueError = SECoPError, BadValueError

    def ask(self, disp, conn, msg):
        try:
            return 'ok', disp.handle_request(conn, msg)
        except self.SECoPError as e:
            return 'err', e.name
        except Exception as e:
            return 'exc', f'{type(e).__name__}: {e}'[:120]

    # ---------------------------------------------------------------- description changed by a later module's initialisation
    def run_control_pair(self):
        """an output module whose 'controlled_by' enum is extended by the initModule of its controllers (register_input),
        declared before or after them: the description (asked after the node is up) shows the final enum and every
        emitted value is importable with it"""
        r, rng = self.r, self.rng
        import frappy.core as C
        from frappy.mixins import HasControlledBy, HasOutputModule

        class Out(HasControlledBy, C.Writable):
            def read_value(self):
                return 0.0

            def write_target(self, v):
                self.self_controlled()
                return v

        class Ctl(HasOutputModule, C.Writable):
            def read_value(self):
                return 0.0

            def write_target(self, v):
                self.activate_control()
                if self.output_module:
                    self.output_module.update_target(self.name, v)
                return v
        nctl = rng.choice([1, 2])
        items = [('heater', {'cls': Out, 'description': 'output'})] + [(f'loop{i}', {'cls': Ctl, 'description': 'controller', 'output_module': 'heater'}) for i in range(nctl)]
        rng.shuffle(items)
        case = {'sub': 'control-pair', 'order': [k for k, _ in items]}
        try:
            node = self.nodes.Node(dict(items)).build()
        except BaseException as e:
            r.violation('C06/node-build-fails', f'(control pair) {type(e).__name__}: {e}'[:300], case)
            return
        r.count('control_pair_nodes')
        disp = node.dispatcher
        conn = self.nodes.Conn('c')
        disp.add_connection(conn)
        desc = self.describe(disp, conn, case)
        if desc is None:
            return
        members = desc['modules']['heater']['accessibles']['controlled_by']['datainfo'].get('members')
        real = node.secnode.modules['heater'].parameters['controlled_by'].datatype.export_datatype()['members']
        if members != real or set(members) != {'self'} | {f'loop{i}' for i in range(nctl)}:
            r.violation('C06/description-differs-from-datatype-in-use/controlled_by', f'described members {members}, the module uses {real} (declaration order {case["order"]})', case)
            return
        st, rep = self.ask(disp, conn, ('activate', None, None))
        for who in [f'loop{i}' for i in range(nctl)] + ['heater']:
            del conn.out[:]
            st, rep = self.ask(disp, conn, ('change', f'{who}:target', 1.0))
            for msg in conn.out:
                if msg[0] == 'update':
                    mn, _, an = msg[1].partition(':')
                    if not self.check_emitted(desc, mn, an, msg[2][0], 'update', case):
                        return
            st, rep = self.ask(disp, conn, ('read', 'heater:controlled_by', None))
            if st == 'ok' and not self.check_emitted(desc, 'heater', 'controlled_by', rep[2][0], 'read', case):
                return
        if not self.describe_again_equal(disp, conn, desc, case):
            return

    def describe_again_equal(self, disp, conn, desc, case):
        st, d2 = self.ask(disp, conn, ('describe', None, None))
        if st != 'ok' or json.loads(strict_dumps(d2[2])) != desc:
            self.r.violation('C06/description-not-stable', 'the description differs after the node has been used', case)
            return False
        return True

    # ---------------------------------------------------------------- generated nodes
    def run_generated(self):
        r, rng = self.r, self.rng
        mspecs = [modgen.gen_module(rng, f'm{i}') for i in range(rng.choice([1, 2, 3]))]
        for ms in mspecs:
            for p in ms['params']:
                if p['limits'] and p['check']:
                    p['check'] = None
                if p['spec']['type'] in ('double', 'scaled') and rng.random() < 0.3:
                    p['spec']['unit'] = rng.choice(['$', '$/min', 'K', 'm$'])

        for ms in mspecs:
            for p in ms['params']:
                if p['name'] == 'value' and '$' in p['spec'].get('unit', ''):
                    p['spec']['unit'] = p['spec']['unit'].replace('$', 'V')    # the main unit can not refer to itself
        for ms in mspecs:
            if rng.random() < 0.4:
                # feature mixins in front of and / or behind the interface class
                ms['features'] = [(fn, rng.choice(['before', 'after'])) for fn in rng.sample(['HasVerifA', 'HasVerifB', 'HasVerifC'], rng.choice([1, 2]))]
        events, hw, cfg = [], {}, {}
        self.cur_hw = hw
        for ms in mspecs:
            cls = modgen.build_class(ms, events, hw=hw)
            cfg[ms['name']] = modgen.module_cfg(ms, cls)
            if rng.random() < 0.2:
                # what the structure report says about the implementing class is derived from the class, whatever a
                # configuration claims
                claim = rng.choice(['interface_classes', 'features', 'implementation'])
                cfg[ms['name']][claim] = {'interface_classes': rng.choice([['Readable'], ['Drivable'], ['Writable', 'Readable'], []]),
                                          'features': rng.choice([['HasFoo'], ['HasVerifA', 'HasOffset']]),
                                          'implementation': 'some.other.Class'}[claim]
                r.count('configurations_claiming_another_class_shape')
            # the configuration widens the datatype of some changeable parameters beyond what the class declares: the
            # description shows the configured datatype and the node accepts exactly what it describes
            for p in ms['params']:
                sp = p['spec']
                if p['name'] in ('value', 'target', 'status') or p['readonly'] or p['constant'] is not None or p.get('limits') or rng.random() > 0.3:
                    continue
                if sp['type'] == 'double' and 'max' in sp and abs(sp['max']) < 1e300:
                    sp['max'] = sp['max'] + rng.choice([1.0, 10.0, abs(sp['max'])])
                    cfg[ms['name']][p['name']] = {'max': sp['max']}
                elif sp['type'] == 'int' and sp['max'] < (1 << 60):
                    sp['max'] = sp['max'] + rng.choice([1, 5, 1000])
                    cfg[ms['name']][p['name']] = {'max': sp['max']}
                elif sp['type'] == 'string' and 'maxchars' in sp and sp['maxchars'] < 500:
                    sp['maxchars'] = sp['maxchars'] + rng.choice([1, 3])
                    cfg[ms['name']][p['name']] = {'maxchars': sp['maxchars']}
                else:
                    continue
                r.count('parameters_with_configured_wider_datatype')
            if not ms['export'] and rng.random() < 0.6:
                # an unexported module whose configuration asks for the export of single accessibles: still nothing of
                # the module is described or reachable
                ms['cfg_export'] = {}
                for a in rng.sample(ms['params'] + ms['commands'], min(2, len(ms['params'] + ms['commands']))):
                    if a.get('constant') is not None:
                        continue
                    v = rng.choice([True, '_cfgx_' + a['name'], 'cfgy' + a['name']])
                    cfg[ms['name']][a['name']] = {'export': v}
                    ms['cfg_export'][a['name']] = v
                r.count('unexported_modules_with_configured_exports')
        case = {'sub': 'generated', 'mspecs': mspecs}
        try:
            node = self.nodes.Node(cfg).build()
        except BaseException as e:
            r.violation('C06/node-build-fails', f'{type(e).__name__}: {e}'[:300], case)
            return
        r.count('generated_nodes')
        disp = node.dispatcher
        conn = self.nodes.Conn('c')
        disp.add_connection(conn)
        desc = self.describe(disp, conn, case)
        if desc is None:
            return
        # ---- structure vs ground truth
        r.count('structure_comparisons')
        want_mods = {ms['name'] for ms in mspecs if ms['export']}
        if set(desc['modules']) != want_mods:
            r.violation('C06/structure/module-set-differs', f'described {sorted(desc["modules"])}, ground truth {sorted(want_mods)}', case)
            return
        for ms in mspecs:
            if not ms['export']:
                continue
            md = desc['modules'][ms['name']]
            want = {}
            mainunit = ''
            for p in ms['params']:
                if p['name'] == 'value':
                    mainunit = p['spec'].get('unit', '')
            for p in ms['params']:
                wn = modgen.wire_name(p)
                if wn:
                    want[wn] = ('param', p)
                for ln in modgen.limit_params(p):
                    if wn:
                        pass
                    want[modgen.limit_wire_name(p, ln)] = ('limit', p)
            for c in ms['commands']:
                wn = modgen.wire_name(c)
                if wn:
                    want[wn] = ('cmd', c)
            for n, kind in INHERITED[ms['base']].items():
                want.setdefault(n, (kind, None))
            got = set(md['accessibles'])
            if got != set(want):
                extra, missing = sorted(got - set(want)), sorted(set(want) - got)
                which = 'unexported-listed' if any(e.lstrip('_') in {p['name'] for p in ms['params'] if not p['export']} |
                                                   {c['name'] for c in ms['commands'] if not c['export']} for e in extra) else 'names-differ'
                r.violation(f'C06/structure/accessible-{which}', f'{ms["name"]}: extra {extra}, missing {missing}', case)
                return
            ic = [ms['base']] if ms['base'] in ('Readable', 'Writable', 'Drivable') else []
            if md.get('interface_classes') != ic:
                r.violation('C06/structure/interface-classes', f'{ms["name"]}: {md.get("interface_classes")} instead of {ic}', case)
                return
            if sorted(md.get('features', [])) != sorted(fn for fn, _ in ms.get('features', [])):
                r.violation('C06/structure/features', f'{ms["name"]}: described {md.get("features")}, class has {ms.get("features", [])}', case)
                return
            if ms.get('features'):
                r.count('modules_with_features')
            if md.get('implementation') != f'vlib.modgen.generated.Gen_{ms["name"]}':
                r.violation('C06/structure/implementation', repr(md.get('implementation')), case)
                return
            if md.get('description') != ms['description']:
                r.violation('C06/structure/description', repr(md.get('description')), case)
                return
            for wn, (kind, acc) in want.items():
                ad = md['accessibles'][wn]
                if kind == 'param' and acc is not None:
                    exp = norm_datainfo(with_main_unit(acc['spec'], mainunit))
                    if norm_datainfo(ad['datainfo']) != exp:
                        r.violation(f'C06/structure/datainfo-differs/{acc["spec"]["type"]}',
                                    f'{ms["name"]}:{wn}: described {json.dumps(ad["datainfo"])[:150]} expected {json.dumps(exp)[:150]}', case)
                        return
                    if ad.get('readonly') != bool(acc['readonly']):
                        r.violation('C06/structure/readonly-flag', f'{ms["name"]}:{wn}', case)
                        return
                    if (acc['constant'] is not None) != ('constant' in ad):
                        r.violation('C06/structure/constant-flag', f'{ms["name"]}:{wn}', case)
                        return
                    if acc['constant'] is not None:
                        cw = canon(acc['spec'], acc['constant'])
                        if ad['constant'] != cw:
                            r.violation(f'C06/structure/constant-value/{acc["spec"]["type"]}', f'{ms["name"]}:{wn}: described {ad["constant"]!r}, configured {cw!r}', case)
                            return
                if kind == 'cmd' and acc is not None:
                    di = ad['datainfo']
                    exp = {'type': 'command'}
                    if acc['arg']:
                        exp['argument'] = norm_datainfo(acc['arg'])
                    if acc['result']:
                        exp['result'] = norm_datainfo(acc['result'])
                    got_di = {'type': di.get('type')}
                    if 'argument' in di and di['argument'] is not None:
                        got_di['argument'] = norm_datainfo(di['argument'])
                    if 'result' in di and di['result'] is not None:
                        got_di['result'] = norm_datainfo(di['result'])
                    if got_di != exp:
                        r.violation('C06/structure/command-datainfo-differs', f'{ms["name"]}:{wn}: {json.dumps(got_di)[:150]} vs {json.dumps(exp)[:150]}', case)
                        return
        # ---- behaviour vs description
        if not self.check_behaviour(node, desc, case, events, generated=mspecs):
            return
        # ---- undescribed names
        for ms in mspecs:
            names = []
            if not ms['export']:
                names = [(ms['name'], modgen.wire_name(p) or '_' + p['name'], 'param') for p in ms['params']] + \
                        [(ms['name'], modgen.wire_name(c) or '_' + c['name'], 'cmd') for c in ms['commands']]
                for an, v in ms.get('cfg_export', {}).items():
                    names += [(ms['name'], x, 'cfg-export') for x in ([v] if isinstance(v, str) else []) + ['_' + an, an]]
            else:
                names = [(ms['name'], x, 'param') for p in ms['params'] if not p['export'] for x in ('_' + p['name'], p['name'])] + \
                        [(ms['name'], x, 'cmd') for c in ms['commands'] if not c['export'] for x in ('_' + c['name'], c['name'])]
            for mn, an, kind in names:
                if mn in desc['modules'] and an in desc['modules'][mn]['accessibles']:
                    continue
                for req in (('read', f'{mn}:{an}', None), ('change', f'{mn}:{an}', 1), ('do', f'{mn}:{an}', None), ('activate', f'{mn}:{an}', None)):
                    n0 = len(events)
                    del conn.out[:]
                    st, rep = self.ask(disp, conn, req)
                    r.count('undescribed_probes')
                    r.case(('undescribed', req[0], kind, st), True)
                    if st == 'ok' or len(events) != n0 or conn.out:
                        r.violation(f'C06/undescribed-accessible-reachable/{req[0]}', f'{req} -> {st} {str(rep)[:100]}; driver events {events[n0:][:2]}', case)
                        return
            if not ms['export']:
                # the short forms that stand for the main value / the target of a module
                for req in (('read', ms['name'], None), ('change', ms['name'], 1), ('read', ms['name'] + ':', None), ('change', ms['name'] + ':', 1)):
                    n0 = len(events)
                    del conn.out[:]
                    st, rep = self.ask(disp, conn, req)
                    r.count('undescribed_probes')
                    r.case(('undescribed', req[0], 'bare-module', st), True)
                    if st == 'ok' or len(events) != n0 or conn.out:
                        r.violation(f'C06/undescribed-accessible-reachable/{req[0]}/bare-module-specifier', f'{req} -> {st} {str(rep)[:100]}; driver events {events[n0:][:2]}', case)
                        return
                del conn.out[:]
                st, rep = self.ask(disp, conn, ('activate', ms['name'], None))
                r.count('undescribed_probes')
                if st == 'ok' or conn.out:
                    r.violation('C06/undescribed-module-subscribable', f'activate {ms["name"]} -> {st}', case)
                    return

    def describe(self, disp, conn, case):
        r = self.r
        st1, d1 = self.ask(disp, conn, ('describe', None, None))
        st2, d2 = self.ask(disp, conn, ('describe', None, None))
        if st1 != 'ok' or st2 != 'ok':
            r.violation('C06/describe-fails', f'{st1} {str(d1)[:200]}', case)
            return None
        try:
            s1, s2 = strict_dumps(d1[2]), strict_dumps(d2[2])
        except (ValueError, TypeError) as e:
            r.violation('C06/describe-not-strict-json', f'{type(e).__name__}: {e}'[:200], case)
            return None
        if s1 != s2:
            r.violation('C06/describe-not-stable', 'two successive describe replies differ', case)
            return None
        return json.loads(s1)

    # ---------------------------------------------------------------- behaviour clauses (generated + shipped)
    def check_behaviour(self, node, desc, case, events, generated=None):
        r, rng = self.r, self.rng
        disp = node.dispatcher
        conn = self.nodes.Conn('b')
        disp.add_connection(conn)
        gt = {}
        if generated:
            for ms in generated:
                for p in ms['params']:
                    wn = modgen.wire_name(p)
                    if wn:
                        gt[(ms['name'], wn)] = p
        # activate: every update importable with the described datainfo
        st, rep = self.ask(disp, conn, ('activate', None, None))
        if st != 'ok':
            r.violation('C06/activate-fails', f'{st} {str(rep)[:200]}', case)
            return False
        updates = list(conn.out)
        del conn.out[:]
        self.ask(disp, conn, ('deactivate', None, None))
        seen = set()
        for msg in updates:
            if msg[0] not in ('update', 'error_update'):
                continue
            mn, _, an = msg[1].partition(':')
            if mn not in desc['modules'] or an not in desc['modules'][mn]['accessibles']:
                r.violation('C06/update-for-undescribed-name', msg[1], case)
                return False
            seen.add((mn, an))
            if msg[0] == 'update' and not self.check_emitted(desc, mn, an, msg[2][0], 'update', case):
                return False
        for mn, md in desc['modules'].items():
            for an, ad in md['accessibles'].items():
                di = ad.get('datainfo', {})
                if di.get('type') == 'command':
                    continue
                r.count('described_params_checked')
                if (mn, an) not in seen:
                    r.violation('C06/described-parameter-without-update', f'{mn}:{an} got no update on activate', case)
                    return False
                try:
                    cdt = self.get_datatype(di)
                except Exception as e:
                    r.violation(f'C06/described-datainfo-unusable/{di.get("type")}', f'{mn}:{an}: {type(e).__name__}: {e}'[:200], case)
                    return False
                # read (shipped nodes: only modules implemented in the demo / simulation packages are read,
                # others would try to reach real hardware through tango / epics / serial lines)
                n0 = len(events)
                if generated is not None and 'constant' in ad and gt.get((mn, an)) and rng.random() < 0.5:
                    # module code touches the cached value of the constant (an assignment in a command, a poll): a read
                    # request still gives the described constant
                    p_ = gt[(mn, an)]
                    try:
                        other = gen_dt.to_py(p_['spec'], gen_dt.complete(p_['spec'], gen_dt.gen_valid(p_['spec'], rng, True), rng))
                        setattr(node.secnode.modules[mn], p_['name'], other)
                        r.count('constants_assigned_by_module_code_before_the_read')
                    except Exception:
                        pass
                if generated is None and 'constant' not in ad and not self.sim_safe(node, mn):
                    r.count('reads_skipped_hardware_class')
                    st, rep = 'skipped', None
                else:
                    st, rep = self.ask(disp, conn, ('read', f'{mn}:{an}', None))
                p = gt.get((mn, an))
                tk = di.get('type')
                r.case(('read', tk, st), 'constant' in ad)
                if 'constant' in ad:
                    r.count('constant_reads')
                    if st != 'ok' or rep[0] != 'reply' or not isinstance(rep[2], list) or len(rep[2]) != 2 or rep[2][0] != ad['constant']:
                        r.violation(f'C06/constant-read-differs/{tk}', f'read {mn}:{an} -> {st} {str(rep)[:150]}, described constant {ad["constant"]!r}', case)
                        return False
                elif st == 'ok':
                    if not self.check_emitted(desc, mn, an, rep[2][0], 'read', case):
                        return False
                elif st == 'exc':
                    r.violation(f'C06/read-raises/{tk}', f'read {mn}:{an}: {rep}', case)
                    return False
                # change probes
                for _ in range(4):
                    w = gen_dt.gen_valid(strip(di), rng)
                    payload = w if rng.random() < 0.35 else gen_dt.mutate(strip(di), w, rng)
                    try:
                        payload = json.loads(json.dumps(payload))
                    except Exception:
                        continue
                    cl = refdt.classify_wire(strip(di), payload)
                    try:
                        cdt.validate(cdt.import_value(payload))
                        client = 'accept'
                    except self.BadValueError:
                        client = 'reject'
                    except Exception as e:
                        client = 'exc'
                    if generated is None and client != 'reject':
                        continue          # shipped node: never send something that might be accepted
                    if payload is None or nested_partial(strip(di), payload):
                        continue      # nested partial structs: known mechanism (C01/C04), would poison the stored value
                    del conn.out[:]
                    n0 = len(events)
                    st, rep = self.ask(disp, conn, ('change', f'{mn}:{an}', payload))
                    if ad.get('readonly'):
                        r.count('readonly_probes')
                        r.case(('change-readonly', tk, st), True)
                        if st == 'ok' or (generated is not None and len(events) != n0):
                            r.violation(f'C06/readonly-flag-not-honoured/{"constant" if "constant" in ad else "readonly"}',
                                        f'change {mn}:{an} {json.dumps(payload)[:80]} -> {st} {str(rep)[:100]}', case)
                            return False
                        continue
                    if cl == 'either' or nested_partial(strip(di), payload):
                        continue
                    r.count('verdict_comparisons')
                    r.case(('verdict', tk, client, st), True)
                    node_verdict = 'accept' if st == 'ok' else 'reject' if st == 'err' and rep in ('WrongType', 'RangeError', 'BadValue') else f'other:{rep}'
                    restricted = p is not None and (p['limits'] or p['check']) or p is None
                    if client == 'reject' and node_verdict == 'accept':
                        r.violation(f'C06/node-accepts-what-description-rejects/{tk}', f'change {mn}:{an} {json.dumps(payload)[:100]} accepted', case)
                        return False
                    if client == 'accept' and node_verdict != 'accept' and not (restricted and rep == 'RangeError'):
                        r.violation(f'C06/node-rejects-what-description-accepts/{tk}', f'change {mn}:{an} {json.dumps(payload)[:100]} -> {st} {rep}', case)
                        return False
                    if node_verdict.startswith('other'):
                        r.violation(f'C06/change-fails-with-other-error/{tk}', f'change {mn}:{an} {json.dumps(payload)[:100]} -> {st} {rep}', case)
                        return False
                    if st == 'ok' and not self.check_emitted(desc, mn, an, rep[2][0], 'changed', case):
                        return False
        if generated is not None and not self.check_garbage_from_driver(node, desc, case, gt, disp, conn):
            return False
        return True

    def check_garbage_from_driver(self, node, desc, case, gt, disp, conn):
        """module code assigns a value its own datatype refuses (garbage from the hardware): whatever the node emits for the
        parameter afterwards (read reply, updates of a new activation) is still importable with the described datainfo
        or an error report"""
        r, rng = self.r, self.rng
        for (mn, an), p in gt.items():
            ad = desc['modules'].get(mn, {}).get('accessibles', {}).get(an)
            if ad is None or 'constant' in ad or rng.random() < 0.5:
                continue
            mod = node.secnode.modules[mn]
            pobj = mod.parameters[p['name']]
            di = strip(ad['datainfo'])
            bad = None
            for _ in range(6):
                cand = gen_dt.mutate(di, gen_dt.gen_valid(di, rng), rng)
                try:
                    pobj.datatype(cand)
                except Exception:
                    bad = cand
                    break
            if bad is None:
                continue
            hw_ = getattr(self, 'cur_hw', None)
            if hw_ is not None and p.get('has_write') and not p.get('readonly') and p.get('constant') is None and self.rng.random() < 0.5 and \
                    p['spec']['type'] not in ('struct', 'tuple', 'array'):
                # (leaf types only: a partial struct coming back is merged with the previous value - the mechanism of the listed
                # nested-partial-struct finding of C01 / C04)
                # the garbage comes back from a write method as the value the hardware holds now
                hw_[('__readback__', mn, p['name'])] = bad
                st, rep = self.ask(disp, conn, ('change', f'{mn}:{an}', p['default']))
                hw_.pop(('__readback__', mn, p['name']), None)
                r.count('garbage_read_back_from_write_methods')
                if st == 'ok' and not self.check_emitted(desc, mn, an, rep[2][0], 'changed-reply-after-garbage', dict(case, garbage=repr(bad)[:100])):
                    return False
            else:
                try:
                    setattr(mod, p['name'], bad)
                except Exception:
                    pass          # refusing the assignment loudly is fine as well
            r.count('garbage_assignments')
            st, rep = self.ask(disp, conn, ('read', f'{mn}:{an}', None))
            if st == 'ok' and not self.check_emitted(desc, mn, an, rep[2][0], 'read-after-garbage', dict(case, garbage=repr(bad)[:100])):
                return False
            if st == 'exc':
                r.violation(f'C06/read-raises/after-garbage/{di.get("type")}', f'read {mn}:{an} after the driver assigned {bad!r}: {rep}'[:250], case)
                return False
        c2 = self.nodes.Conn('g')
        disp.add_connection(c2)
        st, rep = self.ask(disp, c2, ('activate', None, None))
        if st != 'ok':
            r.violation('C06/activate-fails/after-garbage', f'{st} {str(rep)[:200]}', case)
            return False
        for msg in c2.out:
            if msg[0] == 'update':
                mn, _, an = msg[1].partition(':')
                if not self.check_emitted(desc, mn, an, msg[2][0], 'update-after-garbage', case):
                    return False
        disp.remove_connection(c2)
        return True

    @staticmethod
    def sim_safe(node, mn):
        impl = type(node.secnode.modules[mn]).__mro__[1].__module__
        return impl.startswith(('frappy_demo', 'frappy.simulation', 'frappy.modules', 'frappy.core', 'vlib.'))

    def check_emitted(self, desc, mn, an, value, how, case):
        r = self.r
        r.count('emitted_values_checked')
        di = desc['modules'][mn]['accessibles'][an]['datainfo']
        try:
            cdt = self.get_datatype(di)
            v = cdt.validate(cdt.import_value(value))
            ok = json.loads(json.dumps(cdt.export_value(v))) == value or refdt.same_wire(strip(di), value, json.loads(json.dumps(cdt.export_value(v))))
        except Exception as e:
            where = f'shipped/{case["cfg"]}/{mn}:{an}' if case.get('sub') == 'shipped' else f'{di.get("type")}/{how}'
            r.violation(f'C06/emitted-value-not-importable/{where}',
                        f'{mn}:{an} emitted {json.dumps(value)[:100]} which the described datainfo refuses ({type(e).__name__})', case)
            return False
        return True

    # ---------------------------------------------------------------- shipped configurations
    def run_shipped(self, cfgfile):
        r = self.r
        from frappy.config import load_config
        from pathlib import Path
        self.env.set_config(confdir=[Path(os.path.dirname(cfgfile))])
        log = self.env.Log()
        case = {'sub': 'shipped', 'cfg': os.path.basename(cfgfile)}
        nodes = self.nodes

        class FileNode(nodes.Node):
            def __init__(self_inner):   # pylint: disable=no-self-argument,super-init-not-called
                self_inner.log = log
                self_inner.name = 'shipped'
                merged = load_config([cfgfile], log)
                self_inner.node_cfg = merged.pop('node')
                self_inner.module_cfg = merged
                self_inner._testonly = True
                self_inner._cfgfiles = [cfgfile]
                self_inner.interfaces = {}
        try:
            with contextlib.redirect_stdout(io.StringIO()), contextlib.redirect_stderr(io.StringIO()):
                fn = FileNode()
                if not fn.node_cfg.get('cls', '').endswith('dispatcher.Dispatcher'):
                    r.count('shipped_skipped')
                    r.note(f'{os.path.basename(cfgfile)} uses {fn.node_cfg.get("cls")} (no local modules to describe)')
                    return
                node = fn.build()
        except BaseException as e:
            r.count('shipped_skipped')
            r.note(f'{os.path.basename(cfgfile)} does not build offline: {type(e).__name__}')
            return
        r.count('shipped_nodes')
        disp = node.dispatcher
        conn = self.nodes.Conn('s')
        disp.add_connection(conn)
        desc = self.describe(disp, conn, case)
        if desc is None:
            return
        if 'modules' not in desc:
            r.violation('C06/describe-without-modules', f'{case["cfg"]}: keys {sorted(desc)[:8]}', case)
            return
        r.count('shipped_modules', len(desc['modules']))
        with contextlib.redirect_stdout(io.StringIO()):
            self.check_behaviour(node, desc, case, [], generated=None)
        # undescribed: unexported modules / accessibles must not be reachable
        for mn, m in node.secnode.modules.items():
            for an, a in m.accessibles.items():
                exported = mn in desc['modules'] and a.export in desc['modules'][mn]['accessibles']
                if exported:
                    continue
                for name in {'_' + an, an}:
                    if mn in desc['modules'] and name in desc['modules'][mn]['accessibles']:
                        continue
                    for req in (('read', f'{mn}:{name}', None), ('activate', f'{mn}:{name}', None)):
                        del conn.out[:]
                        st, rep = self.ask(disp, conn, req)
                        r.count('undescribed_probes')
                        if st == 'ok' or conn.out:
                            r.violation(f'C06/undescribed-accessible-reachable/{req[0]}', f'{req} on {case["cfg"]} -> {st}', case)
                            return


def strip(di):
    return di


def canon(spec, w):
    t = spec['type']
    if t == 'double':
        return float(w)
    if t == 'array':
        return [canon(spec['members'], e) for e in w]
    if t == 'tuple':
        return [canon(m, e) for m, e in zip(spec['members'], w)]
    if t == 'struct':
        return {k: canon(spec['members'][k], e) for k, e in w.items()}
    return w


def nested_partial(spec, w, depth=0):
    t = spec['type']
    if t == 'struct' and isinstance(w, dict):
        if depth and set(spec['members']) - set(k for k, v in w.items() if v is not None):
            return True
        return any(nested_partial(spec['members'][k], v, depth + 1) for k, v in w.items() if k in spec['members'])
    if t == 'array' and isinstance(w, list):
        return any(nested_partial(spec['members'], v, depth + 1) for v in w)
    if t == 'tuple' and isinstance(w, list):
        return any(nested_partial(m, v, depth + 1) for m, v in zip(spec['members'], w))
    return False


def shipped_files():
    from vlib import env
    d = os.path.join(env.REPO, 'cfg')
    return sorted(os.path.join(d, f) for f in os.listdir(d) if f.endswith('_cfg.py'))


def run_shard(shard):
    r = rec.Recorder(shard)
    rng = random.Random(f'C06/{shard["seed"]}/{shard["idx"]}')
    w = World(r, rng)
    for i in range(shard['n']):
        w.run_generated()
        if i % 4 == 0:
            w.run_control_pair()
    files = shipped_files()
    for k, f in enumerate(files):
        if k % 16 == shard['idx']:
            w.run_shipped(f)
    r.count('shipped_nodes', 0)
    return r.result()


def replay(case):
    r = rec.Recorder()
    w = World(r, random.Random(0))
    if case.get('sub') == 'shipped':
        from vlib import env
        w.run_shipped(os.path.join(env.REPO, 'cfg', case['cfg']))
    else:
        for _ in range(200):
            w.run_generated()
    return r.result()
