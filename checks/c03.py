"""C03 - datatype descriptions, copies and compatibility verdicts are faithful"""
import json
import random

from vlib import rec, refdt, gen_dt

ID = 'C03'
LEVEL = 'exploration'
RULE = ('(a) rebuild: random trees -> export_datatype -> JSON -> get_datatype; same datainfo again and same verdict/'
        'result on valid + hostile probe candidates. (b) copy: same, plus object-graph disjointness and mutation '
        'probes (every settable property at every node, set_main_unit, enum set_name) in both directions. '
        '(c) compatible: ordered pairs (A, widened A | A narrowed in one dimension | unrelated); soundness = if it '
        'returns, every generated valid value of A passes B.validate; completeness on nested-by-construction pairs; '
        'only BadValueError may be raised. (d) users: Writable value/target check. distinct = (sub-check, shapes / '
        'kind pair, outcome); non-trivial = container or cross-kind pair or a mutation probe')
ASSUMPTIONS = ['nested-by-construction pairs come from vlib.gen_dt.widen (trusted)',
               'soundness is judged with the real B.validate on generated valid values of A (python-side form)',
               'client flag differences (partial structs accepted by __call__ on the client) are not compared: '
               'probes use import_value + validate on both sides']
REQUIRED = ['rebuild_trees', 'rebuild_probes', 'copy_trees', 'copy_mutations', 'reconfigured_trees', 'reconfigured_probes', 'compat_pairs', 'compat_returned',
            'compat_sound_values', 'compat_nested_pairs', 'writable_classes']

N = {'quick': 1500, 'thorough': 60000}


def plan(tier, seed, scale=1.0):
    return [{'idx': i, 'n': int(N[tier] * scale)} for i in range(16)]


def nodes(dt, path=()):
    """all DataType objects of a tree with their paths"""
    yield path, dt
    m = getattr(dt, 'members', None)
    if isinstance(m, dict):
        for k, v in m.items():
            yield from nodes(v, path + (k,))
    elif isinstance(m, (tuple, list)):
        for i, v in enumerate(m):
            yield from nodes(v, path + (i,))
    elif m is not None and hasattr(m, 'export_datatype'):
        yield from nodes(m, path + ('*',))


class Monitor:
    def __init__(self, r):
        self.r = r
        from vlib import dtbuild
        self.B = dtbuild
        from frappy import datatypes
        from frappy.errors import BadValueError
        self.D = datatypes
        self.Bad = BadValueError

    # ------------------------------------------------------------ helpers
    def outcome(self, dt, c):
        try:
            res = dt.validate(dt.import_value(c))
            # rendered by the harness (export_value of a partial struct differs by the documented client flag)
            return 'ok', json.loads(json.dumps(refdt.to_wire_lenient(self.di, self.B.plain(res))))
        except self.Bad as e:
            return 'bad', type(e).__name__
        except Exception as e:
            return 'exc', type(e).__name__

    def snapshot(self, dt):
        return json.dumps(dt.export_datatype(), sort_keys=True), repr(dt), self.enum_value_reprs(dt)

    @staticmethod
    def enum_value_reprs(dt):
        """how the values look that the enum nodes of the tree hand out (a member knows the enum it belongs to)"""
        import frappy.datatypes as DT
        out = []

        def walk(t):
            if isinstance(t, DT.EnumType):
                try:
                    first = sorted(m.value for m in t._enum.members)[0]
                    v = t(first)
                    out.append(repr(v) + '|' + repr(getattr(v, 'enum', None)))
                except Exception as e:
                    out.append(type(e).__name__)
            elif isinstance(t, DT.ArrayOf):
                walk(t.members)
            elif isinstance(t, DT.TupleOf):
                for m in t.members:
                    walk(m)
            elif isinstance(t, DT.StructOf):
                for k in sorted(t.members):
                    walk(t.members[k])
        walk(dt)
        return tuple(out)

    def probes(self, di, rng, n=10):
        out = []
        for _ in range(n):
            w = gen_dt.gen_valid(di, rng)
            if rng.random() < 0.6:
                w = gen_dt.mutate(di, w, rng)
            try:
                out.append(json.loads(json.dumps(w)))
            except Exception:
                pass
        return out

    def equivalent(self, sub, di, a, b, rng, case):
        """a, b: datatypes that must be equivalent; returns False after reporting"""
        r = self.r
        self.di = di
        ia = json.loads(json.dumps(a.export_datatype()))
        ib = json.loads(json.dumps(b.export_datatype()))
        if ia != ib:
            r.violation(f'C03/{sub}/datainfo-differs/{self.first_diff(ia, ib)}', f'{sub}: datainfo of the rebuilt type differs',
                        dict(case, datainfo=[ia, ib]))
            return False
        for c in self.probes(di, rng):
            r.count(sub + '_probes')
            oa, ob = self.outcome(a, c), self.outcome(b, c)
            if oa != ob:
                where = refdt.first_unnatural(di, c) or (di['type'], 'valid')
                r.violation(f'C03/{sub}/verdict-differs/{where[0]}/{where[1]}', f'{sub}: original and rebuilt type disagree on a candidate',
                            dict(case, cand=c, outcomes=[oa, ob]))
                return False
        return True

    @staticmethod
    def first_diff(a, b, path='top'):
        if isinstance(a, dict) and isinstance(b, dict):
            for k in sorted(set(a) | set(b)):
                if k not in a or k not in b:
                    return f'{a.get("type", "?")}.{k}'
                if a[k] != b[k]:
                    if isinstance(a[k], (dict, list)):
                        return Monitor.first_diff(a[k], b[k], k)
                    return f'{a.get("type", "?")}.{k}'
        if isinstance(a, list) and isinstance(b, list):
            for x, y in zip(a, b):
                if x != y:
                    return Monitor.first_diff(x, y, path)
        return path

    # ------------------------------------------------------------ (a) rebuild
    def check_rebuild(self, di, rng):
        r = self.r
        r.count('rebuild_trees')
        case = {'sub': 'rebuild', 'spec': di, 'seed': rng.random()}
        t = self.B.build(di)
        try:
            info = json.loads(json.dumps(t.export_datatype(), allow_nan=False))
            t2 = self.D.get_datatype(info)
        except Exception as e:
            r.violation(f'C03/rebuild/raises/{di["type"]}', f'rebuild raises {type(e).__name__}: {e}'[:200], case)
            return
        ok = self.equivalent('rebuild', di, t, t2, rng, case)
        r.case(('rebuild', gen_dt.tree_shape(di), ok), di['type'] in ('array', 'tuple', 'struct'))

    # ------------------------------------------------------------ (b) copy
    MUTATIONS = {'FloatRange': [('min', lambda dt: dt.min + 1 if dt.min < dt.max - 2 else dt.min), ('max', lambda dt: dt.max - 1 if dt.min < dt.max - 2 else dt.max),
                                ('unit', lambda dt: 'mutated'), ('fmtstr', lambda dt: '%.7f'),
                                ('absolute_resolution', lambda dt: 0.125), ('relative_resolution', lambda dt: 0.03125)],
                 'IntRange': [('min', lambda dt: dt.min + 1 if dt.min < dt.max else dt.min - 1), ('max', lambda dt: dt.max + 1 if dt.max < (1 << 63) else dt.max - 1)],
                 'ScaledInteger': [('unit', lambda dt: 'mutated'), ('fmtstr', lambda dt: '%.7f'), ('max', lambda dt: (round(dt.max / dt.scale) + 3) * dt.scale),
                                   ('min', lambda dt: (round(dt.min / dt.scale) - 3) * dt.scale), ('relative_resolution', lambda dt: 0.03125)],
                 'StringType': [('maxchars', lambda dt: dt.maxchars + 1 if dt.maxchars < 1000 else 999), ('isUTF8', lambda dt: not dt.isUTF8),
                                ('minchars', lambda dt: dt.minchars + 1 if dt.minchars < dt.maxchars else max(dt.minchars - 1, 0))],
                 'BLOBType': [('maxbytes', lambda dt: dt.maxbytes + 1), ('minbytes', lambda dt: dt.minbytes + 1 if dt.minbytes < dt.maxbytes else max(dt.minbytes - 1, 0))],
                 # the list of optional members is a plain attribute; frappy itself replaces it (the Command decorator does,
                 # from the defaults of the decorated function)
                 'StructOf': [('optional', lambda dt: sorted(set(dt.members) - set(dt.optional))[:1] + list(dt.optional)[1:])],
                 'ArrayOf': [('maxlen', lambda dt: dt.maxlen + 1), ('minlen', lambda dt: dt.minlen + 1 if dt.minlen < dt.maxlen else max(dt.minlen - 1, 0))]}

    def check_copy(self, di, rng):
        r = self.r
        r.count('copy_trees')
        case = {'sub': 'copy', 'spec': di, 'seed': rng.random()}
        t = self.B.build(di)
        try:
            t3 = t.copy()
        except Exception as e:
            r.violation(f'C03/copy/raises/{di["type"]}', f'copy raises {type(e).__name__}: {e}'[:200], case)
            return
        if not self.equivalent('copy', di, t, t3, rng, case):
            return
        if type(t3) is not type(t):
            r.violation(f'C03/copy/class-differs/{type(t).__name__}', 'copy has another class', case)
            return
        ids = {id(x): p for p, x in nodes(t)}
        for p, x in nodes(t3):
            if id(x) in ids:
                r.violation(f'C03/copy/shared-object/{type(x).__name__}', f'copy shares the datatype object at {p}', case)
                return
        # mutation probes in both directions
        for direction in ('copy', 'orig'):
            a, b = (t, t.copy()) if direction == 'copy' else (t.copy(), t)
            # b is mutated, a must stay
            for path, node in list(nodes(b)):
                cls = type(node).__name__
                muts = list(self.MUTATIONS.get(cls, []))
                for prop, fn in muts:
                    before = self.snapshot(a)
                    try:
                        val = fn(node)
                        node.setProperty(prop, val)
                    except Exception:
                        continue
                    r.count('copy_mutations')
                    if self.snapshot(a) != before:
                        r.violation(f'C03/copy/mutation-leaks/{cls}.{prop}', f'setting {prop} on the {direction} changed the other',
                                    dict(case, path=list(path), prop=prop, direction=direction))
                        return
                if cls == 'StructOf' and isinstance(node.optional, list):
                    # the list of optional members is changed in place (it is a plain, public list)
                    before = self.snapshot(a)
                    if node.optional:
                        del node.optional[0]
                    else:
                        node.optional.append(sorted(node.members)[0])
                    r.count('copy_mutations')
                    if self.snapshot(a) != before:
                        r.violation('C03/copy/mutation-leaks/StructOf.optional', f'changing the optional list of the {direction} in place changed the other',
                                    dict(case, path=list(path), direction=direction))
                        return
                if cls == 'EnumType':
                    before = self.snapshot(a)
                    node.set_name('renamed')
                    r.count('copy_mutations')
                    if self.snapshot(a) != before:
                        r.violation('C03/copy/mutation-leaks/EnumType.name', f'set_name on the {direction} changed the other',
                                    dict(case, path=list(path), direction=direction))
                        return
            before = self.snapshot(a)
            b.set_main_unit('MU')
            r.count('copy_mutations')
            if self.snapshot(a) != before:
                r.violation('C03/copy/mutation-leaks/set_main_unit', f'set_main_unit on the {direction} changed the other',
                            dict(case, direction=direction))
                return
        r.case(('copy', gen_dt.tree_shape(di)), True)

    # ------------------------------------------------------------ (b') reconfigured at run time
    def check_reconfigured(self, di, rng):
        """properties of a built datatype are changed afterwards the way a configuration file / a driver does it
        (setProperty at any node, also forwarded by a container to its member type; then checkProperties on the TOP
        level only, as Parameter.checkProperties does): the type must behave exactly like a type rebuilt from its own
        new description"""
        r = self.r
        t = self.B.build(di)
        # the type has been in use before it is reconfigured (exported, printed, copied)
        try:
            t.export_datatype()
            repr(t)
            t.copy()
        except Exception as e:
            r.violation(f'C03/use-raises/{di["type"]}', f'export_datatype / repr / copy of a freshly built type raises {type(e).__name__}: {e}'[:250],
                        {'sub': 'reconfigured', 'spec': di})
            return
        applied = []
        cand = list(nodes(t))
        rng.shuffle(cand)
        for path, node in cand[:3]:
            cls = type(node).__name__
            muts = list(self.MUTATIONS.get(cls, []))
            if cls == 'ScaledInteger':
                muts.append(('scale', lambda dt: dt.scale / 2))
            target, tpath = node, path
            # a container forwards properties it does not know to its member type (configuration of an array parameter)
            if cls == 'ArrayOf' and rng.random() < 0.6:
                mcls = type(node.members).__name__
                fw = [m for m in self.MUTATIONS.get(mcls, []) if m[0] in ('min', 'max', 'unit')]
                if mcls == 'ScaledInteger':
                    fw.append(('scale', lambda dt: dt.scale / 2))
                if fw:
                    prop, fn = rng.choice(fw)
                    try:
                        node.setProperty(prop, fn(node.members))
                        applied.append([list(path), f'{mcls}.{prop} via ArrayOf'])
                    except Exception:
                        pass
                    continue
            if not muts:
                continue
            prop, fn = rng.choice(muts)
            try:
                if cls == 'StructOf' or rng.random() < 0.4:
                    setattr(node, prop, fn(node))          # "the preferred way": plain attribute assignment
                    applied.append([list(path), f'{cls}.{prop} (assigned)'])
                else:
                    node.setProperty(prop, fn(node))
                    applied.append([list(path), f'{cls}.{prop}'])
            except Exception:
                pass
        if not applied:
            return
        r.count('reconfigured_trees')
        case = {'sub': 'reconfigured', 'spec': di, 'applied': applied, 'seed': rng.random()}
        try:
            t.checkProperties()
            info = json.loads(json.dumps(t.export_datatype(), allow_nan=False))
            t2 = self.D.get_datatype(info)
        except Exception as e:
            r.count('reconfigured_rejected')      # an inconsistent combination is refused loudly: fine
            return
        if not aligned_ok(info):
            return          # scaled limits off the new grid: outside the quantifier
        what = '+'.join(sorted({a[1] for a in applied}))
        n0 = len(r.violations)
        ok = self.equivalent('reconfigured', info, t, t2, rng, case)
        if not ok:
            # key by the reconfigured property (mechanism), not only by the probe that showed it
            for k in list(r.violations)[n0:]:
                v = r.violations.pop(k)
                v['key'] = k + '/after/' + what
                r.violations.setdefault(v['key'], v)
        r.case(('reconfigured', gen_dt.tree_shape(di), what), True)

    # ------------------------------------------------------------ (c) compatible
    def check_compat(self, da, db, relation, rng):
        """relation: 'nested' (by construction), 'narrowed', 'random'"""
        r = self.r
        r.count('compat_pairs')
        case = {'sub': 'compat', 'a': da, 'b': db, 'relation': relation, 'seed': rng.random()}
        try:
            a, b = self.B.build(da), self.B.build(db)
        except Exception:
            r.count('unbuildable_pairs')   # generator artefact (e.g. limits colliding after narrowing), not judged
            return
        pair = f'{da["type"]}->{db["type"]}'
        try:
            a.compatible(b)
            verdict = 'returns'
        except self.Bad:
            verdict = 'refuses'
        except Exception as e:
            r.case(('compat', pair, relation, 'exc'), True)
            r.violation(f'C03/compat/other-exception/{self.compat_culprit(da, db, other_exc=True)}', f'compatible raises {type(e).__name__}', case)
            return
        r.case(('compat', gen_dt.tree_shape(da), gen_dt.tree_shape(db), relation, verdict),
               da['type'] != db['type'] or da['type'] in ('array', 'tuple', 'struct'))
        if r.want_sample():
            r.sample({'A': gen_dt.public(da), 'B': gen_dt.public(db), 'relation': relation, 'compatible': verdict})
        if relation == 'nested':
            r.count('compat_nested_pairs')
            if verdict == 'refuses':
                cu = self.compat_culprit(da, db)
                r.violation(f'C03/compat/incomplete/{cu}', 'value sets are nested by construction but compatible() refuses', case)
                return
        if verdict == 'returns':
            r.count('compat_returned')
            for _ in range(24):
                w = gen_dt.gen_valid(da, rng)
                v = gen_dt.to_py(da, w)
                r.count('compat_sound_values')
                try:
                    b.validate(v)
                except Exception as e:
                    cu = self.unsound_culprit(da, db, w)
                    r.violation(f'C03/compat/unsound/{cu}', f'compatible() returned but a valid value of A is refused by B ({type(e).__name__})',
                                dict(case, value=w))
                    return

    def check_convenience_tuples(self, rng):
        """StatusType / LimitsType are tuples with a convenient constructor; what a client rebuilds from their description
        (and what copy() gives) is a plain tuple with the same members: the verdicts between the two follow the value sets"""
        import frappy.datatypes as DT
        r = self.r
        names = rng.sample(['IDLE', 'WARN', 'BUSY', 'ERROR', 'DISABLED', 'PREPARING', 'UNKNOWN'], rng.randint(2, 5))
        st = DT.StatusType(*names)
        lo = rng.choice([0.0, -5.0, 1.5])
        lim = DT.LimitsType(DT.FloatRange(lo, lo + rng.choice([1.0, 10.0])))
        pairs = []
        for kind, conv in (('status', st), ('limits', lim)):
            plain = DT.get_datatype(json.loads(json.dumps(conv.export_datatype())))
            pairs.append((f'{kind}-type->its-own-description', conv, plain))
            pairs.append((f'{kind}-type->its-copy', conv, conv.copy()))
            if kind == 'status':
                # (a limits pair is ordered, a plain tuple of the same members need not be: that direction is not nested)
                pairs.append((f'description->{kind}-type', plain, conv))
                pairs.append((f'copy->{kind}-type', conv.copy(), conv))
        for what, a, b in pairs:
            r.count('compat_convenience_tuple_pairs')
            r.case(('compat-convenience', what), True)
            try:
                a.compatible(b)
            except self.Bad as e:
                r.violation(f'C03/compat/incomplete/{what}', f'{a!r} -> {b!r}: the value sets are nested by construction but compatible() refuses ({e})'[:300],
                            {'sub': 'compat-convenience', 'what': what, 'names': names})
                return
            except Exception as e:
                r.violation(f'C03/compat/other-exception/{what}', f'{type(e).__name__}: {e}'[:200], {'sub': 'compat-convenience', 'what': what, 'names': names})
                return

    def compat_culprit(self, da, db, other_exc=False):
        """reduce a refused nested pair to the innermost refused pair (other_exc: innermost pair raising
        something that is not a bad-value error)"""
        ta, tb = da['type'], db['type']
        subs = []
        if ta == tb == 'array':
            subs = [(da['members'], db['members'])]
        elif ta == tb == 'tuple':
            subs = list(zip(da['members'], db['members']))
        elif ta == tb == 'struct':
            subs = [(m, db['members'][k]) for k, m in da['members'].items() if k in db['members']]
        for sa, sb in subs:
            try:
                self.B.build(sa).compatible(self.B.build(sb))
            except self.Bad:
                if not other_exc:
                    return self.compat_culprit(sa, sb)
            except Exception:
                return self.compat_culprit(sa, sb, other_exc)
        return f'{ta}->{tb}'

    def unsound_culprit(self, da, db, w):
        ta, tb = da['type'], db['type']
        try:
            if ta == tb == 'array':
                for e in w:
                    try:
                        self.B.build(db['members']).validate(gen_dt.to_py(da['members'], e))
                    except Exception:
                        return self.unsound_culprit(da['members'], db['members'], e)
            elif ta == tb == 'tuple' and len(da['members']) == len(db['members']):
                for ma, mb, e in zip(da['members'], db['members'], w):
                    try:
                        self.B.build(mb).validate(gen_dt.to_py(ma, e))
                    except Exception:
                        return self.unsound_culprit(ma, mb, e)
            elif ta == tb == 'struct':
                for k, e in w.items():
                    if k in db['members']:
                        try:
                            self.B.build(db['members'][k]).validate(gen_dt.to_py(da['members'][k], e))
                        except Exception:
                            return self.unsound_culprit(da['members'][k], db['members'][k], e)
                # which members does the value lack?  mandatory ones of B that A knows (but may omit: listed mechanism) or
                # mandatory ones of B that do not exist in A at all
                mand_b = set(db['members']) - set(db.get('optional', db['members']))
                missing = mand_b - set(w)
                if any(k not in da['members'] for k in missing):
                    return 'struct->struct/target-has-a-mandatory-member-the-source-lacks'
                return 'struct->struct/members'
        except Exception:
            pass
        return f'{ta}->{tb}'

    # ------------------------------------------------------------ (d) users of compatible
    def check_writable(self, dv, dtg, relation, rng):
        """value datatype dv, target datatype dtg: a Writable must be accepted iff target values fit the value type"""
        r = self.r
        r.count('writable_classes')
        from frappy.modules import Writable
        from frappy.params import Parameter
        from frappy.errors import ConfigError, ProgrammingError
        from vlib import nodes as N
        case = {'sub': 'writable', 'value': dv, 'target': dtg, 'relation': relation}
        try:
            cls = type('W', (Writable,), {
                'value': Parameter('v', self.B.build(dv)),
                'target': Parameter('t', self.B.build(dtg)),
                '__module__': __name__})
        except Exception as e:
            r.count('writable_class_refused')
            return
        try:
            N.make_module(cls, 'w')
            verdict = 'accepted'
        except (ConfigError, ProgrammingError):
            verdict = 'refused'
        except Exception as e:
            r.violation(f'C03/writable/other-exception/{dtg["type"]}->{dv["type"]}', f'module creation raises {type(e).__name__}: {e}'[:200], case)
            return
        r.case(('writable', dv['type'], dtg['type'], relation, verdict), True)
        if relation == 'nested' and verdict == 'refused':
            r.violation(f'C03/writable/refused-nested/{self.compat_culprit(dtg, dv)}', 'target values all fit the value type but the module is refused', case)
        if relation == 'narrowed' and verdict == 'accepted':
            # is there really a target value the value type refuses?
            vt = self.B.build(dv)
            for _ in range(24):
                w = gen_dt.gen_valid(dtg, rng)
                try:
                    vt.validate(gen_dt.to_py(dtg, w))
                except Exception:
                    r.violation(f'C03/writable/accepted-not-nested/{self.unsound_culprit(dtg, dv, w)}',
                                'module accepted although a valid target is refused by the value type', dict(case, witness=w))
                    return


def aligned(di):
    """C03 quantifies over scaled integers with grid-aligned limits (the description rounds others, documented)"""
    if isinstance(di, dict):
        return {k: aligned(v) for k, v in di.items() if k not in ('_fmin', '_fmax')}
    if isinstance(di, list):
        return [aligned(v) for v in di]
    return di


def aligned_ok(info):
    """scaled limits on the grid at every node"""
    if isinstance(info, dict):
        if info.get('type') == 'scaled':
            return True       # exported scaled limits are integers by construction
        return all(aligned_ok(v) for v in info.values())
    if isinstance(info, list):
        return all(aligned_ok(v) for v in info)
    return True


def run_shard(shard):
    r = rec.Recorder(shard)
    rng = random.Random(f'C03/{shard["seed"]}/{shard["idx"]}')
    mon = Monitor(r)
    for i in range(shard['n']):
        di = aligned(gen_dt.gen_tree(rng, rng.choice([0, 0, 1, 2, 3])))
        mon.check_rebuild(di, rng)
        if i % 2 == 0:
            mon.check_copy(di, rng)
        mon.check_reconfigured(di, rng)
        if i % 16 == 0:
            mon.check_convenience_tuples(rng)
        # pairs
        for _ in range(3):
            da = aligned(gen_dt.gen_tree(rng, rng.choice([0, 0, 1, 2])))
            q = rng.random()
            if q < 0.45:
                db = gen_dt.widen(da, rng)
                rel = 'nested'
            elif q < 0.8:
                db = gen_dt.narrow_one(da, rng)
                rel = 'narrowed'
            else:
                db = aligned(gen_dt.gen_tree(rng, rng.choice([0, 0, 1])))
                rel = 'random'
            if rel == 'random' and rng.random() < 0.6:
                # cross-kind neighbours: a widened (possibly other-kind) type narrowed again in one dimension
                db = gen_dt.widen(da, rng)
                db = db and gen_dt.narrow_one(db, rng)
                if da['type'] == 'enum' and rng.random() < 0.7:
                    codes = sorted(da['members'].values())
                    db = rng.choice([{'type': 'int', 'min': codes[0], 'max': codes[-1] - rng.choice([0, 1])},
                                     {'type': 'double', 'min': float(codes[0]) + rng.choice([0, 1]), 'max': float(codes[-1])},
                                     {'type': 'scaled', 'scale': 1, 'min': codes[0], 'max': codes[-1] - rng.choice([0, 1])}])
                    if db.get('min') > db.get('max'):
                        db = None
            if da['type'] in ('double', 'int', 'scaled') and rng.random() < 0.25:
                # another number kind whose limits enclose those of A: the verdict may go either way, but when it is given
                # every value of A (also those between the limits: fractions, grid points) must be taken by B
                if da['type'] == 'scaled':
                    ilo, ihi = refdt.scaled_limits(da)
                    lo, hi = ilo * da['scale'], ihi * da['scale']
                else:
                    lo, hi = da.get('min', -1e300), da.get('max', 1e300)
                if abs(lo) < 1e15 and abs(hi) < 1e15:
                    import math
                    wlo, whi = math.floor(lo) - rng.choice([0, 0, 1]), math.ceil(hi) + rng.choice([0, 0, 1])
                    db = rng.choice([{'type': 'int', 'min': wlo, 'max': whi},
                                     {'type': 'double', 'min': float(wlo), 'max': float(whi)},
                                     {'type': 'scaled', 'scale': rng.choice([1, 2, 0.5, 0.25, 0.1]), 'min': wlo, 'max': whi}])
                    if db['type'] == 'scaled':
                        sc = db['scale']
                        db['min'], db['max'] = math.floor(wlo / sc), math.ceil(whi / sc)
                    rel = 'random'
            if db is None:
                continue
            if rel == 'narrowed' and rng.random() < 0.5:
                mon.check_compat(db, da, 'nested-reversed', rng)   # the narrowed one fits into the original
            mon.check_compat(da, db, rel, rng)
        if i % 4 == 0:
            dtg = aligned(gen_dt.gen_leaf(rng, ['double', 'int', 'scaled', 'enum', 'bool', 'string']))
            q = rng.random()
            if q < 0.5:
                dv, rel = gen_dt.widen(dtg, rng, cross=rng.random() < 0.5), 'nested'
            else:
                dv, rel = gen_dt.narrow_one(dtg, rng), 'narrowed'
            if dv is not None:
                mon.check_writable(dv, dtg, rel, rng)
    return r.result()


def replay(case):
    r = rec.Recorder()
    mon = Monitor(r)
    rng = random.Random(case.get('seed', 0))
    sub = case['sub']
    if sub == 'rebuild':
        for _ in range(30):
            mon.check_rebuild(case['spec'], rng)
    elif sub == 'copy':
        for _ in range(10):
            mon.check_copy(case['spec'], rng)
    elif sub == 'compat':
        for _ in range(10):
            mon.check_compat(case['a'], case['b'], case['relation'], rng)
    elif sub == 'compat-convenience':
        for _ in range(40):
            mon.check_convenience_tuples(rng)
    elif sub == 'writable':
        for _ in range(5):
            mon.check_writable(case['value'], case['target'], case['relation'], rng)
    return r.result()
