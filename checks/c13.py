"""C13 - poller: bounded staleness, no starvation, survives failing reads

monitor: virtual-time stamps of every doPoll / read_* invocation made by the real poll thread body
(vlib.detsched runs it on a virtual clock), checked against bounded-progress bounds."""
import random

from vlib import rec

ID = 'C13'
LEVEL = 'exploration'
PROVISION = False
RULE = ('1..4 generated Readable modules on a shared poll thread (common io module) or on threads of their own; poll '
        'intervals 0.1..5 s incl. shorter than a read, slow intervals 0.5..15 s, scripted read/doPoll durations 0..3 s, '
        'failure scripts (rates 0 / 0.3 / 1: SECoP errors, silent errors, ZeroDivisionError, KeyError; communication '
        'failure at start-up), nopoll parameters, run-time changes of pollinterval and fast polling; 200..600 virtual '
        'seconds each; plus wake-up races: a change of pollinterval / fast polling made by another thread exactly before the '
        'k-th line (k = 1..40, systematic) the idle poll loop executes. distinct = (configuration class, failure class, run-time change); non-trivial = configuration '
        'with failures, a slow read longer than the poll interval, or a run-time change')
ASSUMPTIONS = ['bounded progress on the virtual clock, with S = sum of the scripted doPoll durations on the thread + longest single read: '
               'main poll start-to-start <= interval + S (+1%); slow read again within 1.5*slowinterval + (n_polled+1)*S (+1%)',
               'the bounds were calibrated on the unchanged tree (largest observed ratios are written to the evidence on every run)',
               'an unbounded "eventually" is not claimed']
REQUIRED = ['runs', 'main_gaps_checked', 'slow_gaps_checked', 'runs_with_failures', 'nopoll_params_checked', 'interval_changes_checked', 'threads_alive_checked',
            'wakeup_race_injections']

N = {'quick': 50, 'thorough': 3000}


def plan(tier, seed, scale=1.0):
    return [{'idx': i, 'n': max(1, int(N[tier] * scale))} for i in range(16)]


class World:
    def __init__(self, r):
        from vlib import shimimport, detsched
        shimimport.load()
        self.D = detsched
        from vlib import nodes, env
        import frappy.core as C
        import frappy.errors as E
        from frappy.rwhandler import nopoll
        self.r, self.nodes, self.env, self.C, self.E, self.nopoll = r, nodes, env, C, E, nopoll
        self.shim_ok = shimimport.verify()

    def gen(self, rng):
        nmod = rng.choice([1, 2, 3, 4])
        shared = rng.random() < 0.6
        mods = []
        for i in range(nmod):
            nslow = rng.randint(0, 3)
            m = {'name': f'm{i}', 'pollinterval': rng.choice([0.1, 0.25, 0.5, 1, 2, 5]), 'slowinterval': rng.choice([0.5, 2, 5, 15]),
                 'dopoll': rng.choice([0, 0, 0.05, 0.3, 1, 3]), 'reads': {f'p{j}': rng.choice([0, 0, 0.1, 1, 2]) for j in range(nslow)},
                 'value_read': rng.choice([0, 0.05, 0.5]),
                 'nopoll': [f'np{j}' for j in range(rng.choice([0, 0, 1]))],
                 'failrate': rng.choice([0, 0, 0.3, 1.0]), 'failkind': rng.choice(['secop', 'silent', 'zerodiv', 'keyerror', 'mixed']),
                 'comfail_startup': rng.random() < 0.15}
            m['hidden'] = rng.random() < 0.25
            mods.append(m)
        changes = []
        T = rng.choice([200, 300, 600])
        for _ in range(rng.choice([0, 0, 1, 2, 4])):
            changes.append([round(rng.uniform(20, T - 60), 3), rng.randrange(nmod), rng.choice(['interval', 'fast-on', 'fast-off']),
                            rng.choice([0.1, 0.5, 1, 3, 10])])
        if rng.random() < 0.25:
            # the busy pattern: fast polling on, the interval is changed meanwhile, fast polling off
            mi = rng.randrange(nmod)
            t0 = round(rng.uniform(20, T - 120), 3)
            changes = [c for c in changes if c[1] != mi]
            changes += [[t0, mi, 'fast-on', rng.choice([0.1, 0.5])], [t0 + rng.choice([3, 10]), mi, 'interval', rng.choice([0.5, 2, 3, 10])],
                        [t0 + rng.choice([15, 30]), mi, 'fast-off', 0]]
        changes.sort()
        unpolled_writer = shared and rng.random() < 0.4
        scen = {'mods': mods, 'shared': shared, 'changes': changes, 'T': T, 'rngseed': rng.randrange(1 << 30), 'unpolled_writer': unpolled_writer}
        if rng.random() < 0.2:
            scen['startup_change'] = [rng.randrange(nmod), rng.choice([0.1, 0.5, 2, 10])]
        return scen

    def run(self, scen):
        r, D, C, E = self.r, self.D, self.C, self.E
        LOG = []
        frng = random.Random(scen['rngseed'])

        def fail(kind):
            k = kind if kind != 'mixed' else frng.choice(['secop', 'silent', 'zerodiv', 'keyerror'])
            return {'secop': E.HardwareError('hw'), 'silent': E.SilentCommunicationFailedError('silent'), 'zerodiv': ZeroDivisionError('z'),
                    'keyerror': KeyError('k')}[k]
        cfg = {}
        info = {}
        if scen['shared']:
            class IO(C.Module):
                enablePoll = False
            cfg['io'] = {'cls': IO, 'description': 'shared poll thread'}
        first = {}
        for m in scen['mods']:
            name = m['name']
            ns = {'__module__': __name__, 'pollinterval': C.Parameter(datatype=C.FloatRange(0.05, 120), default=m['pollinterval']),
                  'slowinterval': m['slowinterval']}
            if scen['shared']:
                ns['io'] = C.Attached()

            def doPoll(self, _m=m):
                s = D.CURRENT
                LOG.append((s.now, _m['name'], 'doPoll'))
                D.vsleep(_m['dopoll'])
                if frng.random() < _m['failrate']:
                    raise fail(_m['failkind'])
            ns['doPoll'] = doPoll

            def read_value(self, _m=m):
                s = D.CURRENT
                LOG.append((s.now, _m['name'], 'value'))
                sc = scen.get('startup_change')
                if sc and scen['mods'][sc[0]]['name'] == _m['name'] and not first.get(('sc', _m['name'])):
                    # the driver adapts its poll interval in its very first read (the poll thread is still starting up)
                    first[('sc', _m['name'])] = True
                    self.pollinterval = sc[1]
                    info.setdefault('changes', []).append((s.now, sc[0], 'interval', sc[1]))
                D.vsleep(_m['value_read'])
                if _m['comfail_startup'] and not first.get(_m['name']):
                    first[_m['name']] = True
                    raise E.CommunicationFailedError('no connection at start-up')
                if frng.random() < _m['failrate']:
                    raise fail(_m['failkind'])
                return 1.0
            ns['read_value'] = read_value
            for pn, d in m['reads'].items():
                ns[pn] = C.Parameter(pn, C.FloatRange(), default=0)

                def rd(self, _m=m, _pn=pn, _d=d):
                    s = D.CURRENT
                    LOG.append((s.now, _m['name'], _pn))
                    D.vsleep(_d)
                    if frng.random() < _m['failrate']:
                        raise fail(_m['failkind'])
                    return 2.0
                ns['read_' + pn] = rd
            for pn in m['nopoll']:
                ns[pn] = C.Parameter(pn, C.FloatRange(), default=0)

                def rdn(self, _m=m, _pn=pn):
                    LOG.append((D.CURRENT.now, _m['name'], _pn))
                    return 3.0
                ns['read_' + pn] = self.nopoll(rdn)
            cls = type('P13_' + name, (C.Readable,), ns)
            c = {'cls': cls, 'description': name}
            if scen['shared']:
                c['io'] = 'io'
            if m.get('hidden'):
                c['export'] = False       # an internal module: not described, polled like every other one
            cfg[name] = c
        if scen['shared'] and scen.get('unpolled_writer'):
            # a module without polling that rides on the shared poll thread only for its configured start-up write
            def write_gain(self, v):
                LOG.append((D.CURRENT.now, 'unpolled', 'write_gain'))
                return v
            cfg['unpolled'] = {'cls': type('P13_unpolled', (C.Module,), {'__module__': __name__, 'enablePoll': False, 'io': C.Attached(),
                                                                           'gain': C.Parameter('gain', C.FloatRange(), readonly=False, default=1.0),
                                                                           'write_gain': write_gain}),
                               'description': 'unpolled', 'io': 'io', 'gain': {'value': 2.5}}
        def root():
            s = D.CURRENT
            node = self.nodes.Node(cfg, testonly=False).build()
            info['ready'] = s.now
            info['node'] = node
            t0 = s.now
            race = scen.get('race')
            if race and race['kind'] == 'interval-split':
                # the changing thread is preempted before the k-th line of PollInfo.update_interval: the poll thread runs (if it
                # has been woken already) until it waits again, only then the change is completed
                import frappy.modulebase as MB_
                D.vsleep(race['arm_at'])
                mod = node.secnode.modules[scen['mods'][0]['name']]
                code = MB_.PollInfo.update_interval.__code__
                st = {'n': 0}
                me_root = s.me() if hasattr(s, 'me') else None

                def hook(code_, line, me):
                    if code_ is code and st['n'] >= 0:
                        st['n'] += 1
                        if st['n'] == race['k']:
                            st['n'] = -1
                            info['race_line'] = line
                            D.vsleep(0.0005)
                D.LINE_HOOK = hook
                mod.pollinterval = race['val']
                D.LINE_HOOK = None
                info.setdefault('changes', []).append((s.now, 0, 'interval', race['val']))
                race = 'done'
            if race and race != 'done':
                # the change is made "by another thread" exactly before the k-th line the poll thread executes in its
                # main loop after the arming time (wake-up races between computing the waiting time and waiting)
                D.vsleep(race['arm_at'])
                mod = node.secnode.modules[scen['mods'][0]['name']]
                code = C.Module._Module__pollThread.__code__
                st = {'n': 0}

                def hook(code_, line, me):
                    if code_ is code and st['n'] >= 0:
                        st['n'] += 1
                        if st['n'] == race['k']:
                            st['n'] = -1
                            info['race_line'] = line
                            if race['kind'] == 'interval':
                                mod.pollinterval = race['val']
                            else:
                                mod.setFastPoll(True, race['val'])
                            info.setdefault('changes', []).append((s.now, 0, race['kind'], race['val']))
                D.LINE_HOOK = hook
            for t, mi, kind, val in ([] if race else scen['changes']):
                dt = t0 + t - s.now
                if dt > 0:
                    D.vsleep(dt)
                mod = node.secnode.modules[scen['mods'][mi]['name']]
                if kind == 'interval':
                    mod.pollinterval = val
                elif kind == 'fast-on':
                    mod.setFastPoll(True, min(val, 1.0))
                else:
                    mod.setFastPoll(False)
                info.setdefault('changes', []).append((s.now, mi, kind, val))
            rest = t0 + scen['T'] - s.now
            if rest > 0:
                D.vsleep(rest)
            info['alive'] = [(t.name, t.state) for t in s.threads if t.name.endswith('__pollThread')]
            info['t_end'] = s.now
            node.secnode.shutdown_modules()
        s = D.Sched(('seq',), 0, horizon=scen['T'] + 200, grace=30, max_steps=400_000)
        if scen.get('race'):
            import frappy.modulebase as MB_
            D.watch_lines(C.Module._Module__pollThread, MB_.PollInfo.update_interval)
        try:
            s.run(root, wall_timeout=120)
        finally:
            D.LINE_HOOK = None
            if scen.get('race'):
                D.unwatch_all()
        return s, LOG, info

    def judge(self, scen, s, LOG, info):
        r = self.r
        case = {'scenario': scen}
        r.count('runs')
        if s.status == 'watchdog':
            r.inconclusive.append('wall-clock watchdog fired')
            return
        if s.status == 'budget':
            # sequential strategy, one poll thread: 400 000 yield points inside a few hundred virtual seconds is a busy loop
            r.violation('C13/poll-thread-busy-loop', f'step budget exhausted at virtual time +{s.now - self.D.T0:.3f} s of {scen["T"]} s; threads {s.alive[:3]}', case)
            return
        if s.status != 'ok' or 'ready' not in info:
            r.violation(f'C13/run-{s.status}', f'node did not come up or got stuck: {s.alive[:4]} {s.escaped[:1]}', case)
            return
        mods = scen['mods']
        fails = any(m['failrate'] for m in mods) or any(m['comfail_startup'] for m in mods)
        if fails:
            r.count('runs_with_failures')
        slowlong = any(d > m['pollinterval'] for m in mods for d in list(m['reads'].values()) + [m['dopoll']])
        r.case((len(mods), scen['shared'], tuple(sorted({m['failkind'] for m in mods if m['failrate']})), tuple(c[2] for c in scen['changes']), slowlong),
               fails or slowlong or bool(scen['changes']))
        if r.want_sample():
            r.sample({'modules': [{k: v for k, v in m.items() if k in ('pollinterval', 'slowinterval', 'dopoll', 'reads', 'failrate', 'failkind')} for m in mods],
                      'shared_thread': scen['shared'], 'changes': scen['changes'], 'poll_events': len(LOG)})
        # ---- thread liveness
        r.count('threads_alive_checked')
        nthreads = 1 if scen['shared'] else len(mods)
        alive = [a for a in info.get('alive', []) if a[1] in ('ready', 'blocked')]
        if len(alive) != nthreads:
            kinds = sorted({m['failkind'] for m in mods if m['failrate']}) or ['none']
            r.violation(f'C13/poll-thread-died/{"+".join(kinds)}', f'{len(alive)} of {nthreads} poll threads alive at the end; escaped: {s.escaped[:1]}', case)
            return
        if s.escaped:
            r.violation('C13/exception-escapes-poll-thread', f'{s.escaped[0][:2]}', dict(case, traceback=s.escaped[0][2]))
            return
        t_end = info['t_end']
        groups = [mods] if scen['shared'] else [[m] for m in mods]
        changes = info.get('changes', [])
        for group in groups:
            S = sum(m['dopoll'] for m in group) + max([d for m in group for d in list(m['reads'].values()) + [m['value_read']]] or [0])
            npolled = sum(len(m['reads']) + 1 for m in group)     # + value
            for m in group:
                mi = mods.index(m)
                name = m['name']
                mine = [c for c in changes if c[1] == mi]
                # effective interval as a function of time
                def interval_at(t, _m=m, _mine=mine):
                    iv = _m['pollinterval']
                    fast = None
                    base = iv
                    for tc, _, kind, val in _mine:
                        if tc > t:
                            break
                        if kind == 'interval':
                            base = val
                            if fast is None:
                                iv = val
                        elif kind == 'fast-on':
                            fast = min(val, 1.0)
                            iv = fast
                        else:
                            fast = None
                            iv = base
                    return iv
                t = [x[0] for x in LOG if x[1] == name and x[2] == 'doPoll' and x[0] >= info['ready']]
                if not t:
                    r.violation('C13/module-never-polled', f'{name}: no doPoll after the node was ready', case)
                    return
                # ---- main poll: start-to-start
                for a, b in zip(t, t[1:] + [t_end]):
                    iv = max([interval_at(a), interval_at(b)] + [interval_at(tc) for tc, _, _, _ in mine if a < tc < b])
                    bound = (iv + S) * 1.01 + 1e-3
                    r.count('main_gaps_checked')
                    r.maximum('worst_main_gap_ratio', round((b - a) / bound, 4))
                    if b - a > bound:
                        r.violation('C13/main-poll-gap-exceeds-bound', f'{name}: {b - a:.3f} s between two main polls, bound {bound:.3f} (interval {iv}, sweep {S})',
                                    dict(case, module=name, at=a))
                        return
                # ---- interval change takes effect from the next wake-up
                for tc, _, kind, val in mine:
                    r.count('interval_changes_checked')
                    # a change made while the poll thread is still in its start-up phase (initial writes and reads of all its
                    # modules) takes effect when the regular polling begins
                    if tc < info.get('ready', 0):
                        r.count('interval_changes_during_startup')
                        tc = info['ready']
                    nxt = [x for x in t if x > tc]
                    # later changes made before the next poll supersede this one
                    upto = nxt[0] if nxt else t_end
                    newiv = max([interval_at(tc)] + [interval_at(t2) for t2, _, _, _ in mine if tc < t2 <= upto])
                    bound = (newiv + S) * 1.01 + 1e-3
                    if tc + bound < t_end and (not nxt or nxt[0] - tc > bound):
                        r.violation(f'C13/interval-change-not-effective/{kind}', f'{name}: {kind} {val} at {tc:.3f}: next main poll after {(nxt[0] - tc) if nxt else None} s, bound {bound:.3f}',
                                    dict(case, module=name))
                        return
                # ---- slow polls
                for pn in list(m['reads']) + ['value']:
                    tt = [x[0] for x in LOG if x[1] == name and x[2] == pn]
                    if not tt:
                        r.violation('C13/parameter-never-polled', f'{name}:{pn}', case)
                        return
                    # (one more sweep than the first calibration: a thread that is catching up after a fast-poll phase of another
                    # module reached 1.01 of the old bound once in 48 000 runs of the thorough tier)
                    bound = (1.5 * m['slowinterval'] + (npolled + 2) * S) * 1.01 + 1e-3
                    for a, b in zip(tt, tt[1:] + [t_end]):
                        r.count('slow_gaps_checked')
                        r.maximum('worst_slow_gap_ratio', round((b - a) / bound, 4))
                        if b - a > bound:
                            r.violation('C13/slow-poll-gap-exceeds-bound', f'{name}:{pn}: {b - a:.3f} s between two reads, bound {bound:.3f} (slowinterval {m["slowinterval"]}, sweep {S}, {npolled} polled)',
                                        dict(case, module=name, param=pn))
                            return
                for pn in m['nopoll']:
                    r.count('nopoll_params_checked')
                    if any(x[1] == name and x[2] == pn for x in LOG):
                        r.violation('C13/nopoll-parameter-polled', f'{name}:{pn} was read by the poller', case)
                        return
        r.count('nopoll_params_checked', 0)


def run_shard(shard):
    r = rec.Recorder(shard)
    rng = random.Random(f'C13/{shard["seed"]}/{shard["idx"]}')
    w = World(r)
    if not all(w.shim_ok.values()):
        r.inconclusive.append(f'shim binding incomplete: {w.shim_ok}')
        return r.result()
    vsecs = 0
    for i in range(shard['n']):
        scen = w.gen(rng)
        s, LOG, info = w.run(scen)
        vsecs += scen['T']
        w.judge(scen, s, LOG, info)
    # wake-up races: a run-time change arriving before every line of the idle poll loop (systematic over the line index)
    kinds = ['interval', 'fast-on']
    for k in range(1, 41):
        if (k + shard['idx']) % 4:
            continue            # the 16 shards share the (k, kind, interval) grid
        for kind in kinds:
            iv = [5, 10][(k + shard['idx']) % 2]
            scen = {'mods': [{'name': 'm0', 'pollinterval': iv, 'slowinterval': 15, 'dopoll': 0, 'reads': {}, 'value_read': 0, 'nopoll': [],
                              'failrate': 0, 'failkind': 'secop', 'comfail_startup': False}],
                    'shared': False, 'changes': [[1, 0, kind, 0.2]], 'T': 60, 'rngseed': 1,
                    'race': {'k': k, 'kind': kind, 'val': 0.2, 'arm_at': round(20 + 0.37 * k + 0.11 * shard['idx'], 3)}}
            s, LOG, info = w.run(scen)
            r.count('wakeup_race_runs')
            if 'race_line' in info:
                r.count('wakeup_race_injections')
                r.maximum('wakeup_race_max_line_index', k)
            w.judge(scen, s, LOG, info)
    # the converse: the thread that changes the interval is preempted inside PollInfo.update_interval
    for k in (1, 2, 3, 4, 5, 6):
        iv = [50, 100][(k + shard['idx']) % 2]
        scen = {'mods': [{'name': 'm0', 'pollinterval': iv, 'slowinterval': 120, 'dopoll': 0, 'reads': {}, 'value_read': 0, 'nopoll': [],
                          'failrate': 0, 'failkind': 'secop', 'comfail_startup': False}],
                'shared': False, 'changes': [[1, 0, 'interval', 0.5]], 'T': 60, 'rngseed': 1,
                'race': {'k': k, 'kind': 'interval-split', 'val': 0.5, 'arm_at': round(20 + 0.37 * k + 0.11 * shard['idx'], 3)}}
        s, LOG, info = w.run(scen)
        r.count('interval_change_preempted_runs')
        if 'race_line' in info:
            r.count('interval_change_preemptions')
        w.judge(scen, s, LOG, info)
    r.count('virtual_seconds', vsecs)
    return r.result()


def replay(case):
    r = rec.Recorder()
    w = World(r)
    scen = case['scenario']
    s, LOG, info = w.run(scen)
    w.judge(scen, s, LOG, info)
    return r.result()
