"""C10 - configuration is applied faithfully; erroneous configuration is rejected whole

monitor: generated configuration FILES (the real DSL, load_config, _processCfg) over generated module
classes; oracle from the generator's ground truth for applied values / overrides, and from an error
catalogue with known truth for rejection."""
import contextlib
import io
import json
import os
import random
import shutil
import sys
import tempfile
import types

from vlib import rec, refdt, gen_dt, modgen

ID = 'C10'
LEVEL = 'exploration'
RULE = ('generated configuration files (1..3 files merged) over generated module classes: any subset of parameters '
        'configured by Param(value) or bare value, default=, overridden min/max/unit/maxchars/maxlen, readonly, export '
        '(False / custom name), visibility, group, module properties; erroneous variants = a valid configuration plus '
        '1..3 injected errors from a catalogue (unknown module property or parameter, unknown parameter property, '
        'wrong-typed value / default / property, missing description, missing required value, inverted limits, invalid '
        'module name). distinct = (override kinds used, error kinds injected, outcome); non-trivial = every '
        'configuration that overrides something or contains an error')
ASSUMPTIONS = ['ground truth = generator; configured start values outside the (overridden) limits are recorded, not judged',
               'the write-before-first-poll clause is observed with real poll threads (logical order of recorded events, no wall-clock bound)',
               'generated classes are made importable through a synthetic module "frappy_verifgen"']
REQUIRED = ['valid_configs', 'erroneous_configs', 'start_values_checked', 'overrides_checked', 'errors_injected',
            'rejections_checked', 'merged_configs', 'write_order_nodes', 'configured_writes_checked',
            'array_element_limit_probes', 'write_order_nodes_with_failing_write', 'write_order_handler_nodes']

N = {'quick': 40, 'thorough': 2000}
GENMOD = 'frappy_verifgen'


def plan(tier, seed, scale=1.0):
    return [{'idx': i, 'n': max(1, int(N[tier] * scale))} for i in range(16)]


def pyrepr(v):
    """python literal for a configuration file"""
    if isinstance(v, float):
        return repr(v)
    if isinstance(v, (list, tuple)):
        return '(' + ''.join(pyrepr(x) + ', ' for x in v) + ')'
    if isinstance(v, dict):
        return '{' + ', '.join(f'{k!r}: {pyrepr(x)}' for k, x in v.items()) + '}'
    return repr(v)


class World:
    def __init__(self, r, rng):
        from vlib import env, nodes
        from frappy.config import load_config
        from frappy.errors import ConfigError
        self.r, self.rng = r, rng
        self.env, self.nodes = env, nodes
        self.load_config = load_config
        self.ConfigError = ConfigError
        self.genmod = types.ModuleType(GENMOD)
        sys.modules[GENMOD] = self.genmod
        self.dir = tempfile.mkdtemp(prefix='c10-')
        self.k = 0

    def close(self):
        shutil.rmtree(self.dir, ignore_errors=True)

    # ------------------------------------------------------------------ generation
    def gen_case(self):
        rng = self.rng
        self.k += 1
        nmod = rng.choice([1, 2, 3, 4])
        mods = []
        self.events = []
        self.hw = {}
        for i in range(nmod):
            ms = modgen.gen_module(rng, f'mod{i}', base=rng.choice(['Module', 'Module', 'Readable', 'Writable']))
            ms['nopoll'] = rng.random() < 0.25
            ms['export'] = True
            if rng.random() < 0.4:
                # a curve-like parameter: array of numbers with finite element limits (configurable on the array parameter)
                mt = rng.choice(['double', 'int'])
                lo, hi = rng.choice([(-10, 10), (0, 100), (-1000, 1000)])
                aspec = {'type': 'array', 'minlen': rng.choice([0, 1, 2]), 'maxlen': rng.choice([2, 5]),
                         'members': {'type': mt, 'min': float(lo) if mt == 'double' else lo, 'max': float(hi) if mt == 'double' else hi}}
                ms['params'].append({'name': 'curve', 'spec': aspec, 'readonly': False, 'constant': None, 'export': True,
                                     'default': [aspec['members']['min'] + 2] * aspec['maxlen'], 'has_read': False,
                                     'has_write': rng.random() < 0.5, 'write_returns': 'value', 'check': None, 'limits': None})
            for p in ms['params']:
                p['limits'] = None
                p['check'] = None
                if p['name'] == 'value' and '$' in p['spec'].get('unit', ''):
                    p['spec']['unit'] = p['spec']['unit'].replace('$', 'V')
                if p['constant'] is not None:
                    p['constant'] = None
                    p['has_read'] = p['has_write'] = False
                p['needscfg'] = False
            cls = modgen.build_class(ms, self.events, hw=self.hw)
            if rng.random() < 0.35:
                # accessibles declared optional by a base class and not implemented by this class: they do not exist here
                import frappy.core as C
                holder = type('OptHolder', (), {'optpar': C.Parameter('optional parameter', C.FloatRange(), optional=True),
                                                 'optcmd': C.Command(description='optional command', optional=True)})
                cls = type(cls.__name__, (cls, holder), {'__module__': cls.__module__, '__doc__': cls.__doc__})
                ms['optional'] = ['optpar', 'optcmd']
            cls.__name__ = f'Gen{self.k}_{ms["name"]}'
            setattr(self.genmod, cls.__name__, cls)
            ms['clspath'] = f'{GENMOD}.{cls.__name__}'
            mods.append(ms)
        # configuration items per module
        cfgs = {}
        for ms in mods:
            items = {}        # key -> ('param', dict of props) | ('bare', value) | ('modprop', value)
            truth = {'values': {}, 'defaults': {}, 'datainfo': {}, 'readonly': {}, 'export': {}, 'writes': {}, 'modprops': {}}
            for p in ms['params']:
                if p['name'] in ('value',) or rng.random() < 0.45:
                    continue
                spec = p['spec']
                props = {}
                style = 'param'
                q = rng.random()
                if q < 0.55:
                    v = gen_dt.complete(spec, gen_dt.gen_valid(spec, rng, True), rng)
                    if rng.random() < 0.4:
                        style = 'bare'
                    props['value'] = v
                    truth['values'][p['name']] = v
                    if p['has_write']:
                        truth['writes'][p['name']] = v
                elif q < 0.7:
                    v = gen_dt.complete(spec, gen_dt.gen_valid(spec, rng, True), rng)
                    props['default'] = v
                    truth['defaults'][p['name']] = v
                if style == 'param':
                    di = dict(spec)
                    t = spec['type']
                    if t in ('double', 'int') and rng.random() < 0.4 and 'value' not in props and 'default' not in props:
                        lo, hi = spec.get('min'), spec.get('max')
                        if lo is not None and hi is not None and hi - lo > 4 and abs(lo) < 1e15 and abs(hi) < 1e15:
                            nlo = lo + 1
                            nhi = hi - 1
                            props['min'], props['max'] = nlo, nhi
                            di['min'], di['max'] = nlo, nhi
                    if t in ('double', 'scaled') and rng.random() < 0.3:
                        props['unit'] = 'cfgunit'
                        di['unit'] = 'cfgunit'
                    if t == 'string' and rng.random() < 0.3 and 'value' not in props and 'default' not in props:
                        props['maxchars'] = spec.get('maxchars', 500) + 7
                        di['maxchars'] = props['maxchars']
                    if t == 'array' and rng.random() < 0.3:
                        props['maxlen'] = spec['maxlen'] + 2
                        di['maxlen'] = props['maxlen']
                    if t == 'array' and spec['members']['type'] in ('double', 'int') and rng.random() < 0.5 \
                            and 'value' not in props and 'default' not in props:
                        # element limits configured on the array parameter (forwarded to the member datatype)
                        m = spec['members']
                        lo, hi = m.get('min'), m.get('max')
                        if lo is not None and hi is not None and hi - lo > 4 and abs(lo) < 1e15 and abs(hi) < 1e15:
                            props['min'], props['max'] = lo + 1, hi - 1
                            di['members'] = dict(m, min=lo + 1, max=hi - 1)
                    # a start value that is valid only for the datatype AS CONFIGURED in the same Param(): longer than the
                    # class allows, with the length limit raised beside it
                    if t == 'string' and 'maxchars' in spec and spec['maxchars'] < 200 and rng.random() < 0.3 and not p['constant']:
                        props.pop('default', None)
                        truth['defaults'].pop(p['name'], None)
                        props['maxchars'] = di['maxchars'] = spec['maxchars'] + 7
                        v = 'y' * (spec['maxchars'] + 3)
                        props['value'] = v
                        truth['values'][p['name']] = v
                        if p['has_write']:
                            truth['writes'][p['name']] = v
                    if t == 'array' and rng.random() < 0.3 and 'min' not in props and not p['constant']:
                        props.pop('default', None)
                        truth['defaults'].pop(p['name'], None)
                        props['maxlen'] = di['maxlen'] = spec['maxlen'] + 2
                        elem = gen_dt.complete(spec['members'], gen_dt.gen_valid(spec['members'], rng, True), rng)
                        v = [elem] * (spec['maxlen'] + 1)
                        props['value'] = v
                        truth['values'][p['name']] = v
                        if p['has_write']:
                            truth['writes'][p['name']] = v
                    if di != spec:
                        truth['datainfo'][p['name']] = di
                    if rng.random() < 0.2:
                        props['readonly'] = not p['readonly']
                        truth['readonly'][p['name']] = props['readonly']
                    if rng.random() < 0.2:
                        props['export'] = rng.choice([False, '_cfgname_' + p['name']])
                        truth['export'][p['name']] = props['export']
                    if rng.random() < 0.15:
                        props['visibility'] = rng.choice(['advanced', 'expert', 2])
                    if rng.random() < 0.15:
                        props['group'] = 'grp'
                if not props:
                    continue
                items[p['name']] = (style, props, spec)
            if rng.random() < 0.3:
                items['group'] = ('modprop', 'modgroup', None)
                truth['modprops']['group'] = 'modgroup'
            if rng.random() < 0.2:
                items['visibility'] = ('modprop', 'expert', None)
                truth['modprops']['visibility'] = 3
            cfgs[ms['name']] = {'items': items, 'truth': truth}
        return mods, cfgs

    ERRORS = ['unknown-module-property', 'unknown-parameter-property', 'wrong-typed-value', 'wrong-typed-default',
              'wrong-typed-parameter-property', 'wrong-typed-module-property', 'missing-description', 'inverted-limits',
              'missing-required-value', 'unknown-datatype-property', 'config-for-unimplemented-optional',
              'value-violates-configured-datatype']

    def inject(self, ms, cfg, kind, pname=None):
        """mutate the config of one module; returns False if not applicable"""
        rng = self.rng
        items = cfg['items']
        params = [p for p in ms['params'] if pname is None or p['name'] == pname]
        if kind == 'unknown-module-property':
            items[rng.choice(['zz_unknown', 'valeu', 'P0', 'pollintervall'])] = ('bare', {'value': 1}, None)
            return True
        if kind == 'config-for-unimplemented-optional':
            if not ms.get('optional'):
                return False
            name = rng.choice(ms['optional'])
            items[name] = rng.choice([('bare', {'value': 1.0}, None), ('param', {'visibility': 'expert'}, None),
                                      ('param', {'value': 2.0}, None), ('param', {'description': 'configured'}, None)])
            return True
        p = rng.choice(params)
        name = p['name']
        style, props, spec = items.get(name, ('param', {}, p['spec']))
        props = dict(props)
        if kind == 'value-violates-configured-datatype':
            # the value is fine for the class datatype but not for the limits configured in the same Param()
            cand = [q for q in params if q['constant'] is None and (
                (q['spec']['type'] == 'string' and q['spec'].get('minchars', 0) <= 1 and q['spec'].get('maxchars', 10 ** 9) >= 3) or
                (q['spec']['type'] == 'array' and q['spec']['maxlen'] > max(q['spec'].get('minlen', 0), 1)))]
            if not cand:
                return False
            p = rng.choice(cand)
            name = p['name']
            sp = p['spec']
            if sp['type'] == 'string':
                props = {'maxchars': 1, 'value': 'abc'}
            else:
                elem = gen_dt.complete(sp['members'], gen_dt.gen_valid(sp['members'], rng, True), rng)
                props = {'maxlen': max(sp.get('minlen', 0), 1), 'value': [elem] * sp['maxlen']}
            items[name] = ('param', props, sp)
            return True
        if kind == 'unknown-parameter-property':
            props[rng.choice(['nosuchprop', 'valu', 'Unit'])] = 1
        elif kind == 'unknown-datatype-property':
            if p['spec']['type'] in ('array', 'tuple', 'struct'):
                return False      # containers forward unknown properties to their members (documented)
            bad = {'double': 'maxchars', 'int': 'unit', 'scaled': 'maxlen', 'bool': 'min', 'enum': 'max', 'string': 'min', 'blob': 'unit',
                   'array': 'maxbytes', 'tuple': 'maxlen', 'struct': 'min'}[p['spec']['type']]
            props[bad] = 1
        elif kind in ('wrong-typed-value', 'wrong-typed-default'):
            t = p['spec']['type']
            bad = {'double': 'text', 'int': 1.5, 'scaled': 'x', 'bool': 7, 'enum': 'nosuchmember', 'string': 5, 'blob': 'text',
                   'array': 3, 'tuple': 3, 'struct': 3}[t]
            props.pop('value', None)
            props.pop('default', None)
            props['value' if kind == 'wrong-typed-value' else 'default'] = RawValue(bad)
        elif kind == 'wrong-typed-parameter-property':
            k, v = rng.choice([('visibility', 'nosuchlevel'), ('readonly', 'maybe'), ('description', 5), ('group', 7)])
            props[k] = RawValue(v)
        elif kind == 'wrong-typed-module-property':
            k, v = rng.choice([('visibility', 'nosuchlevel'), ('group', 5), ('meaning', 'x'), ('export', 'perhaps')])
            items[k] = ('modprop', RawValue(v), None)
            return True
        elif kind == 'missing-description':
            cfg['no_description'] = True
            return True
        elif kind == 'inverted-limits':
            if p['spec']['type'] not in ('double', 'int'):
                return False
            lo = p['spec'].get('min', 0)
            if not isinstance(lo, (int, float)) or abs(lo) > 1e15:
                return False
            props.pop('value', None)
            props.pop('default', None)
            props['min'], props['max'] = lo + 5, lo + 1
        elif kind == 'missing-required-value':
            cfg['needscfg'] = name
            props.pop('value', None)
            if not props:
                items.pop(name, None)
                return True
        items[name] = ('param', props, spec)
        return True

    # ------------------------------------------------------------------ files
    def write_files(self, mods, cfgs, nfiles, tag, extra_nodes=True, dup=None):
        rng = self.rng
        d = os.path.join(self.dir, f'{tag}{self.k}')
        os.makedirs(d, exist_ok=True)
        files = []
        names = [ms['name'] for ms in mods]
        split = [names[i::nfiles] for i in range(nfiles)]
        for fi in range(nfiles):
            lines = [f"Node('eq{fi}.verif', 'node description {fi}', 'tcp://5000')"]
            for ms in mods:
                if ms['name'] not in split[fi]:
                    continue
                lines.append(self.mod_text(ms, cfgs[ms['name']]))
            if dup is not None and fi == dup[1]:
                # a later source configures a module of the first file once more, differently: the sources are merged in
                # the order given, the section read first is the module's configuration (as for the node section) and the
                # clash is reported
                ms = next(m for m in mods if m['name'] == dup[0])
                cfg2 = dict(cfgs[ms['name']], items=dict(cfgs[ms['name']]['items']))
                cfg2.pop('no_description', None)
                if 'group' not in cfg2['items']:
                    cfg2['items']['group'] = ('modprop', 'dupgroup', None)
                lines.append(self.mod_text(dict(ms, description='section of a later file'), cfg2))
            path = os.path.join(d, f'part{fi}_cfg.py')
            with open(path, 'w', encoding='utf-8') as f:
                f.write('\n'.join(lines) + '\n')
            files.append(path)
        return files, split

    def mod_text(self, ms, cfg, name=None):
        parts = []
        for key, (style, props, spec) in cfg['items'].items():
            if style == 'modprop':
                parts.append(f'{key} = {self.lit(props, None)}')
            elif style == 'bare':
                parts.append(f'{key} = {self.lit(props["value"], spec)}')
            else:
                args = []
                if 'value' in props:
                    args.append(self.lit(props['value'], spec))
                for k, v in props.items():
                    if k == 'value':
                        continue
                    args.append(f'{k}={self.lit(v, spec if k == "default" else None)}')
                parts.append(f'{key} = Param({", ".join(args)})')
        descr = '' if cfg.get('no_description') else repr(ms['description'])
        head = f"Mod({(name or ms['name'])!r}, {ms['clspath']!r}, {descr or 'None'}"
        return head + ''.join(',\n    ' + p for p in parts) + ')'

    @staticmethod
    def lit(v, spec):
        if isinstance(v, RawValue):
            return pyrepr(v.v)
        if spec is not None:
            return pyrepr(gen_dt.to_py(spec, v))
        return pyrepr(v)

    # ------------------------------------------------------------------ running
    def build(self, files, testonly=True):
        from pathlib import Path
        self.env.set_config(confdir=[Path(os.path.dirname(files[0]))])
        log = self.env.Log()
        nodes = self.nodes
        load_config = self.load_config

        class FileNode(nodes.Node):
            def __init__(s):    # pylint: disable=super-init-not-called,no-self-argument
                s.log = log
                s.name = 'cfgnode'
                merged = load_config(files, log)
                s.node_cfg = merged.pop('node')
                s.merged = merged
                s.module_cfg = merged
                s._testonly = testonly
                s._cfgfiles = files
                s.interfaces = {}
        err = io.StringIO()
        node = None
        exit_code = None
        exc = None
        with contextlib.redirect_stderr(err), contextlib.redirect_stdout(io.StringIO()):
            try:
                node = FileNode()
                node.build()
            except SystemExit as e:
                exit_code = e.code
            except Exception as e:      # ConfigError from the DSL itself (e.g. invalid module name) rejects the whole file
                exc = e
        return node, exit_code, exc, err.getvalue(), log

    def run_valid(self, mods, cfgs):
        r, rng = self.r, self.rng
        nfiles = rng.choice([1, 1, 2, 3])
        dup = None
        if nfiles > 1 and rng.random() < 0.4:
            names0 = [ms['name'] for ms in mods][0::nfiles]
            dup = (rng.choice(names0), rng.randrange(1, nfiles))
        files, split = self.write_files(mods, cfgs, nfiles, 'ok', dup=dup)
        kinds = sorted({k for c in cfgs.values() for (_s, props, _sp) in c['items'].values() if isinstance(props, dict) for k in props})
        case = {'sub': 'valid', 'files': [open(f).read() for f in files]}
        node, code, exc, stderr, log = self.build(files)
        r.count('valid_configs')
        r.case(('valid', tuple(kinds), nfiles), bool(kinds))
        if r.want_sample():
            r.sample({'config_file': case['files'][0][:600]})
        if code is not None or exc is not None:
            r.violation('C10/valid-config-rejected', f'exit={code} exc={exc!r} stderr={stderr[:300]}', case)
            return
        # merging
        if nfiles > 1:
            r.count('merged_configs')
            if node.node_cfg['equipment_id'] != 'eq0.verif':
                r.violation('C10/merge/first-node-section-does-not-win', node.node_cfg['equipment_id'], case)
                return
            for fi in range(1, nfiles):
                for name in split[fi]:
                    m = node.secnode.modules.get(name)
                    if m is None or m.original_id != f'eq{fi}.verif':
                        r.violation('C10/merge/original-id-not-set', f'{name}: {getattr(m, "original_id", None)}', case)
                        return
            if dup is not None:
                r.count('merged_configs_with_a_module_configured_twice')
                m = node.secnode.modules.get(dup[0])
                if m is None:
                    r.violation('C10/merge/duplicate-section/module-missing', dup[0], case)
                    return
                if m.description == 'section of a later file' or getattr(m, 'group', None) == 'dupgroup' or \
                        getattr(m, 'original_id', None) == f'eq{dup[1]}.verif':
                    r.violation('C10/merge/duplicate-section/later-file-wins',
                                f'{dup[0]} is configured in file 0 and again in file {dup[1]}: built with description {m.description!r}, group '
                                f'{getattr(m, "group", None)!r}, original_id {getattr(m, "original_id", None)!r}', case)
                    return
                if not any(lev == 'warning' and 'ambiguous' in msg and dup[0] in msg for lev, _n, msg in log.records):
                    r.violation('C10/merge/duplicate-section/not-reported', f'{dup[0]}: {[x for x in log.records if x[0] == "warning"][:3]}', case)
                    return
        desc = node.secnode.get_descriptive_data('')
        conn = self.nodes.Conn()
        node.dispatcher.add_connection(conn)
        for ms in mods:
            truth = cfgs[ms['name']]['truth']
            m = node.secnode.modules.get(ms['name'])
            if m is None:
                r.violation('C10/valid-module-missing', ms['name'], case)
                return
            md = desc['modules'][ms['name']]
            for k, v in truth['modprops'].items():
                r.count('overrides_checked')
                if md.get(k) != v:
                    r.violation(f'C10/module-property-not-applied/{k}', f'{ms["name"]}: described {md.get(k)!r}, configured {v!r}', case)
                    return
            for p in ms['params']:
                n = p['name']
                pobj = m.parameters[n]
                spec = truth['datainfo'].get(n, p['spec'])
                for which in ('values', 'defaults'):
                    if n in truth[which]:
                        r.count('start_values_checked')
                        want = canon(spec, truth[which][n])
                        try:
                            got = json.loads(json.dumps(pobj.export_value()))
                        except Exception as e:
                            got = f'export raises {type(e).__name__}'
                        if got != want:
                            r.violation(f'C10/start-value-differs/{p["spec"]["type"]}/{which}', f'{ms["name"]}.{n}: cache {got!r}, configured {want!r}', case)
                            return
                exp = truth['export'].get(n, p['export'])
                wn = None if exp is False else (exp if isinstance(exp, str) else modgen.wire_name(dict(p, export=True)))
                if n in truth['export']:
                    r.count('overrides_checked')
                    listed = [a for a in md['accessibles'] if a.lstrip('_').endswith(n) or a == wn]
                    if (wn is None and any(a in md['accessibles'] for a in ('_' + n, n))) or (wn is not None and wn not in md['accessibles']):
                        r.violation('C10/override-not-applied/export', f'{ms["name"]}.{n}: configured export={exp!r}, described names {listed}', case)
                        return
                    if wn is not None:
                        st = self.ask(node, conn, ('read', f'{ms["name"]}:{wn}', None))
                        if st[0] != 'ok':
                            r.violation('C10/override-not-applied/export-not-addressable', f'{ms["name"]}:{wn} described but read -> {st}', case)
                            return
                if wn is None:
                    continue
                ad = md['accessibles'].get(wn)
                if ad is None:
                    continue
                if n in truth['datainfo']:
                    r.count('overrides_checked')
                    from checks.c06 import norm_datainfo, with_main_unit
                    vpar = next((x for x in ms['params'] if x['name'] == 'value'), None)
                    mainunit = truth['datainfo'].get('value', vpar['spec'] if vpar else {}).get('unit', '') if vpar else ''
                    if norm_datainfo(ad['datainfo']) != norm_datainfo(with_main_unit(spec, mainunit)):
                        r.violation(f'C10/override-not-applied/datainfo/{p["spec"]["type"]}',
                                    f'{ms["name"]}.{n}: described {json.dumps(ad["datainfo"])[:120]}, configured {json.dumps(spec)[:120]}', case)
                        return
                ro = truth['readonly'].get(n, p['readonly'])
                if n in truth['readonly']:
                    r.count('overrides_checked')
                    if ad['readonly'] != ro:
                        r.violation('C10/override-not-applied/readonly', f'{ms["name"]}.{n}: described readonly={ad["readonly"]}', case)
                        return
                if n in truth['readonly'] and ro is False and p['readonly']:
                    # a class-level read-only parameter made writable by the configuration must accept a valid change
                    payload = gen_dt.gen_valid(spec, self.rng, True)
                    st = self.ask(node, conn, ('change', f'{ms["name"]}:{wn}', gen_dt.complete(spec, payload, self.rng)))
                    if st[0] != 'ok':
                        r.violation('C10/override-not-applied/readonly-false-but-not-writable',
                                    f'{ms["name"]}.{n} is described as writable (configured readonly=False) but a valid change fails with {st[1]}', case)
                        continue      # known mechanism: go on with the other clauses
                # later range checks use the overridden element limits of an array
                if n in truth['datainfo'] and not ro and spec['type'] == 'array' and spec['members'] != p['spec']['members']:
                    old, new = p['spec']['members'], spec['members']
                    length = max(spec.get('minlen', 0), 1)
                    if length <= spec['maxlen']:
                        for elem in (old['min'], old['max'], new['min'], new['max']):
                            payload = [new['min']] * (length - 1) + [elem]
                            cl = refdt.classify_wire(spec, payload)
                            if cl == 'either':
                                continue
                            st = self.ask(node, conn, ('change', f'{ms["name"]}:{wn}', payload))
                            r.count('overrides_checked')
                            r.count('array_element_limit_probes')
                            if (st[0] == 'ok') != (cl == 'accept'):
                                r.violation('C10/override-not-applied/range-check-uses-old-limits/array-elements',
                                            f'change {ms["name"]}:{wn} {payload} -> {st[0]} with configured element limits [{new["min"]}, {new["max"]}]', case)
                                return
                # later range checks use the overridden limits
                if n in truth['datainfo'] and not ro and spec['type'] in ('double', 'int') and \
                        spec.get('min') != p['spec'].get('min') and 'min' in p['spec'] and 'max' in p['spec']:
                    old = p['spec']
                    for payload in (old['min'], old['max'], spec['min'], spec['max']):
                        cl = refdt.classify_wire(spec, payload)
                        if cl == 'either':
                            continue      # inside the resolution band of the new limits
                        expect_ok = cl == 'accept'
                        st = self.ask(node, conn, ('change', f'{ms["name"]}:{wn}', payload))
                        r.count('overrides_checked')
                        if (st[0] == 'ok') != expect_ok:
                            r.violation('C10/override-not-applied/range-check-uses-old-limits',
                                        f'change {ms["name"]}:{wn} {payload} -> {st[0]} with configured limits [{spec["min"]}, {spec["max"]}]', case)
                            return

    def ask(self, node, conn, msg):
        try:
            return 'ok', node.dispatcher.handle_request(conn, msg)
        except Exception as e:
            return 'err', type(e).__name__

    def run_erroneous(self, mods, cfgs):
        r, rng = self.r, self.rng
        nerr = rng.choice([1, 1, 2, 3])
        bad = {}
        for _ in range(nerr):
            ms = rng.choice(mods)
            kind = rng.choice(self.ERRORS)
            p = None
            if kind == 'missing-required-value':
                # needs a class with a needscfg parameter: rebuild that class
                p = rng.choice(ms['params'])
                if p['name'] == 'value' or ms['name'] in bad:
                    continue
                p['needscfg'] = True
                from vlib import dtbuild
                import frappy.core as C
                base = getattr(self.genmod, ms['clspath'].split('.')[1])
                cls = type(base.__name__ + 'N', (base,), {p['name']: C.Parameter(needscfg=True), '__module__': GENMOD})
                setattr(self.genmod, cls.__name__, cls)
                ms['clspath'] = f'{GENMOD}.{cls.__name__}'
            if self.inject(ms, cfgs[ms['name']], kind, p['name'] if kind == 'missing-required-value' else None):
                bad.setdefault(ms['name'], []).append(kind)
                r.count('errors_injected')
                r.count('error_' + kind)
        if not bad:
            return
        nfiles = rng.choice([1, 2])
        files, split = self.write_files(mods, cfgs, nfiles, 'bad')
        case = {'sub': 'erroneous', 'files': [open(f).read() for f in files], 'bad': bad}
        node, code, exc, stderr, log = self.build(files)
        r.count('erroneous_configs')
        kinds = tuple(sorted(k for v in bad.values() for k in v))
        r.case(('erroneous', kinds, nfiles), True)
        if exc is not None:
            r.violation(f'C10/rejection-by-other-exception/{type(exc).__name__}', f'{exc!r}'[:200], case)
            return
        r.count('rejections_checked')
        if code in (None, 0):
            mech = kinds[0] if len(kinds) == 1 else 'several'
            served = [n for n in bad if node and n in node.secnode.modules]
            r.violation(f'C10/erroneous-config-accepted/{mech}', f'_processCfg returned normally; bad modules registered: {served}', case)
            return
        for name, ks in bad.items():
            if node and name in node.secnode.modules:
                r.violation(f'C10/bad-module-registered/{ks[0]}', f'{name} is registered although its configuration is erroneous', case)
                return
            if name not in stderr:
                r.violation(f'C10/failing-module-not-reported/{ks[0]}', f'{name} missing in the report: {stderr[:300]}', case)
                return
        for ms in mods:
            if ms['name'] not in bad and f'error creating module {ms["name"]}' in stderr:
                r.violation('C10/unaffected-module-reported', f'{ms["name"]} reported: {stderr[:300]}', case)
                return

    def run_write_order(self, mods, cfgs):
        """non-test mode with real poll threads: configured values reach write_<p> exactly once, before the first poll event"""
        r = self.r
        if not any(c['truth']['writes'] for c in cfgs.values()):
            return
        files, _ = self.write_files(mods, cfgs, 1, 'run')
        case = {'sub': 'write-order', 'files': [open(f).read() for f in files]}
        del self.events[:]
        # a transient driver fault in one start-up write: every configured value is still handed to its method once
        if self.rng.random() < 0.5:
            from frappy.errors import CommunicationFailedError, HardwareError
            cands = [(ms['name'], n) for ms in mods for n in cfgs[ms['name']]['truth']['writes']]
            mn_, n_ = self.rng.choice(cands)
            exc = self.rng.choice([CommunicationFailedError, HardwareError, ValueError])('injected start-up write fault')
            self.hw[('__fail__', mn_, n_, 'write')] = exc
            case['failing_write'] = [mn_, n_, type(exc).__name__]
            r.count('write_order_nodes_with_failing_write')
        node, code, exc, stderr, log = self.build(files, testonly=False)
        if code is not None or exc is not None:
            r.violation('C10/valid-config-rejected', f'(non-test mode) exit={code} exc={exc!r} {stderr[:200]}', case)
            return
        try:
            r.count('write_order_nodes')
            events = list(self.events)
            for ms in mods:
                truth = cfgs[ms['name']]['truth']
                mine = [e for e in events if e[1] == ms['name']]
                first_poll = next((i for i, e in enumerate(mine) if e[0] == 'read'), len(mine))
                for n, v in truth['writes'].items():
                    r.count('configured_writes_checked')
                    idx = [i for i, e in enumerate(mine) if e[0] == 'write' and e[2] == n]
                    p = next(p for p in ms['params'] if p['name'] == n)
                    if len(idx) != 1:
                        r.violation(f'C10/configured-write-count/{len(idx)}' + ('/with-failing-write' if 'failing_write' in case else ''), f'{ms["name"]}.{n}: write method called {len(idx)}x (failing write: {case.get("failing_write")})', case)
                        return
                    from vlib import dtbuild
                    cspec = truth['datainfo'].get(n, p['spec'])        # the datatype as configured
                    got = json.loads(json.dumps(dtbuild.build(cspec).export_value(mine[idx[0]][3])))
                    if got != canon(cspec, v):
                        r.violation('C10/configured-write-value', f'{ms["name"]}.{n}: written {got!r}, configured {v!r}', case)
                        return
                    if idx[0] > first_poll:
                        r.violation('C10/configured-write-after-first-poll', f'{ms["name"]}.{n}: events {mine[:6]}', case)
                        return
        finally:
            node.secnode.shutdown_modules()


def run_write_order_handler(w, r, rng):
    """configured values of parameters that share one write method (frappy.rwhandler.CommonWriteHandler): the common
    method receives all configured values of its group in ONE call, exactly once, before the first poll; parameters
    with their own write method beside it are written once each"""
    import frappy.core as C
    from frappy.rwhandler import CommonWriteHandler
    group = rng.sample(['p', 'i', 'd', 'q'], rng.choice([2, 3]))
    events = []
    ns = {'__module__': __name__, 'single': C.Parameter('own write method', C.FloatRange(), readonly=False, default=0.0)}
    for k in group:
        ns[k] = C.Parameter(f'group member {k}', C.FloatRange(), readonly=False, default=0.0)

    # the driver may read the hardware record first (the usual pattern for a device with one combined set command): the
    # members it was not asked to write take the values the hardware has - but every CONFIGURED value still arrives
    refresh = rng.random() < 0.5
    hw = {k: 100.0 + i for i, k in enumerate(group)}

    def write_group(self, values):
        if refresh:
            for k in group:
                setattr(self, k, hw[k])
        got = {k: float(values[k]) for k in group}
        hw.update(got)
        events.append(('write-group', got))
        for k, v in got.items():
            setattr(self, k, v)
    ns['write_group'] = CommonWriteHandler(group)(write_group)

    def write_single(self, v):
        events.append(('write-single', float(v)))
        return v
    ns['write_single'] = write_single

    def read_value(self):
        events.append(('poll', None))
        return 0.0
    ns['read_value'] = read_value
    cls = type('GroupMod', (C.Readable,), ns)
    configured = {k: float(rng.randint(1, 99)) for k in rng.sample(group, rng.choice([1, 2, len(group)]))}
    cfg = {'cls': cls, 'description': 'x'}
    for k, v in configured.items():
        cfg[k] = {'value': v}
    single = rng.random() < 0.6
    if single:
        cfg['single'] = {'value': 7.5}
    case = {'sub': 'write-order-handler', 'group': group, 'configured': configured, 'single': single, 'reads_hardware_first': refresh}
    try:
        node = w.nodes.Node({'g': cfg}, testonly=False).build()
    except BaseException as e:
        r.violation('C10/valid-config-rejected', f'(common write handler) {type(e).__name__}: {e}'[:200], case)
        return
    try:
        r.count('write_order_handler_nodes')
        # the poll thread that did the start-up writes goes on living (and polling)
        poller = getattr(node.secnode.modules['g'], '_Module__poller', None)
        if poller is not None and not poller.is_alive():
            r.violation('C10/poll-thread-died-during-the-start-up-writes/common-handler', f'configured {configured}: the poll thread of the module is dead after the start', case)
            return
        evs = list(events)
        first_poll = next((i for i, e in enumerate(evs) if e[0] == 'poll'), len(evs))
        gw = [(i, e[1]) for i, e in enumerate(evs) if e[0] == 'write-group']
        r.count('configured_writes_checked')
        if len(gw) != 1:
            r.violation(f'C10/configured-write-count/{len(gw)}/common-handler', f'the common write method was called {len(gw)}x for the configured values {configured}: {evs[:6]}', case)
            return
        want = {k: configured.get(k, 100.0 + group.index(k) if refresh else 0.0) for k in group}
        if refresh:
            r.count('common_handlers_reading_the_hardware_first')
        if gw[0][1] != want:
            r.violation('C10/configured-write-value/common-handler', f'the common write method received {gw[0][1]}, configured {want}', case)
            return
        if gw[0][0] > first_poll:
            r.violation('C10/configured-write-after-first-poll', f'common handler: {evs[:6]}', case)
            return
        sw = [i for i, e in enumerate(evs) if e[0] == 'write-single']
        if single and (len(sw) != 1 or sw[0] > first_poll):
            r.violation(f'C10/configured-write-count/{len(sw)}', f'write_single beside a common handler: {evs[:6]}', case)
            return
        mod = node.secnode.modules['g']
        if any(getattr(mod, k) != v for k, v in configured.items()):
            r.violation('C10/start-value-differs/double/common-handler', f'cache { {k: getattr(mod, k) for k in group} } configured {configured}', case)
    finally:
        node.secnode.shutdown_modules()


class RawValue:
    def __init__(self, v):
        self.v = v


def canon(spec, w):
    t = spec['type']
    if t == 'double':
        return float(w)
    if t == 'array':
        return [canon(spec['members'], e) for e in w]
    if t == 'tuple':
        return [canon(m, e) for m, e in zip(spec['members'], w)]
    if t == 'struct':
        return {k: canon(spec['members'][k], e) for k, e in w.items()}
    return w


def run_shard(shard):
    r = rec.Recorder(shard)
    rng = random.Random(f'C10/{shard["seed"]}/{shard["idx"]}')
    w = World(r, rng)
    try:
        for i in range(shard['n']):
            mods, cfgs = w.gen_case()
            w.run_valid(mods, cfgs)
            if i % 3 == 0:
                w.run_write_order(mods, cfgs)
                run_write_order_handler(w, r, rng)
            w.run_erroneous(mods, cfgs)
    finally:
        w.close()
    return r.result()


def replay(case):
    r = rec.Recorder()
    w = World(r, random.Random(5))
    try:
        for i in range(150):
            mods, cfgs = w.gen_case()
            w.run_valid(mods, cfgs)
            w.run_erroneous(mods, cfgs)
    finally:
        w.close()
    return r.result()
