"""C15 - lifecycle: initialise, write config, poll, serve; shutdown in reverse order

monitor: event log recorded by instrumented module classes while the real _processCfg / poll threads /
MultiEvent start barrier / shutdown_modules run under the deterministic scheduler with virtual time."""
import contextlib
import io
import itertools
import random

from vlib import rec

ID = 'C15'
LEVEL = 'exploration'
PROVISION = False
RULE = ('attachment graphs on up to 5 modules: every module has up to two optional attachments pointing to another module, '
        'itself, a missing name or a module of the wrong class; used in earlyInit, in initModule or never; all graphs on <= 2 '
        'modules and all single-attachment graphs on 3 modules are enumerated with all declaration orders, larger ones are '
        'sampled; plus shared communicators via equal uri, dynamically scanned (Pinata) modules, unexported modules, polling '
        'on/off, configured writes, slow or failing initial reads, failing earlyInit / initModule. distinct = (graph shape, '
        'order, options); non-trivial = graph with an edge, an error or a start-up time-out')
ASSUMPTIONS = ['attachments are resolved lazily: a missing / wrongly typed / cyclic attachment is judged only if the user accesses it during earlyInit or initModule',
               'start barrier: 30 virtual seconds (the default of the server), judged on the virtual clock',
               'poll events that started before shutdown may end after it; only poll events STARTING after the module was shut down are violations']
REQUIRED = ['nodes', 'valid_nodes_started', 'error_nodes', 'order_checks', 'attachment_accesses_checked', 'shutdowns_checked',
            'write_before_poll_checked', 'ready_time_checked', 'exhaustive_graphs']

N = {'quick': 45, 'thorough': 4000}


def plan(tier, seed, scale=1.0):
    return [{'idx': i, 'n': max(1, int(N[tier] * scale))} for i in range(16)]


class World:
    def __init__(self, r):
        from vlib import shimimport, detsched
        shimimport.load()
        self.D = detsched
        from vlib import nodes, env
        import frappy.core as C
        import frappy.errors as E
        from frappy.io import HasIO
        from frappy.dynamic import Pinata
        self.r, self.nodes, self.env, self.C, self.E = r, nodes, env, C, E
        self.HasIO, self.Pinata = HasIO, Pinata
        self.shim_ok = shimimport.verify()
        # LINE yield points inside the functions that stop the poll threads (races between the shutdown and a waking poll thread)
        import frappy.modulebase as MB
        self.nwatched = detsched.watch_lines(MB.Module.stopPollThread, MB.Module.joinPollThread)
        self.make_classes()

    def make_classes(self):
        C, D = self.C, self.D
        w = self

        def log(*a):
            s = D.CURRENT
            w.LOG.append((len(w.LOG), s.now if s else 0.0) + a)

        class M(C.Readable):
            a1 = C.Attached(mandatory=False)
            a2 = C.Attached(mandatory=False)
            x = C.Parameter('x', C.FloatRange(), readonly=False, default=0)
            opt = {}

            def touch(self, where):
                for n in ('a1', 'a2'):
                    o = getattr(self, n)
                    if o is not None:
                        log(self.name, 'uses', o.name, bool(o.initModuleDone), where)

            def earlyInit(self):
                log(self.name, 'early')
                if self.opt.get('fail') == 'early':
                    raise ValueError('early init fails')
                if self.opt.get('use') == 'early':
                    self.touch('early')
                super().earlyInit()

            def initModule(self):
                log(self.name, 'init')
                if self.opt.get('fail') == 'init':
                    raise ValueError('init fails')
                if self.opt.get('use') == 'init':
                    self.touch('init')
                super().initModule()
                log(self.name, 'init-done')

            def startModule(self, start_events):
                log(self.name, 'start')
                super().startModule(start_events)
                own = self.opt.get('own_start')
                if own:
                    # start-up work of the module's own thread, granted its own time-out (longer or shorter than the default)
                    grant, takes = own
                    trigger = start_events.get_trigger(grant)

                    def work():
                        D.vsleep(takes)
                        log(self.name, 'own-start-done')
                        trigger()
                    D.CoThread(target=work, name=f'own-start-{self.name}').start()

            def shutdownModule(self):
                s_ = D.CURRENT
                alive = [t.name for t in s_.threads if '__pollThread' in t.name and t.state != 'done'] if s_ else []
                log(self.name, 'shutdown', len(alive))
                if self.opt.get('shutdown_takes'):
                    D.vsleep(self.opt['shutdown_takes'])     # e.g. parking a device: poll threads must be stopped by now

            def write_x(self, v):
                log(self.name, 'write_x', v)
                return v

            def read_value(self):
                log(self.name, 'read_value')
                d = self.opt.get('read_takes', 0)
                if d:
                    D.vsleep(d)
                if self.opt.get('read_fails') and not getattr(self, '_failed', False):
                    self._failed = True
                    raise w.E.CommunicationFailedError('start-up failure')
                log(self.name, 'read_value-end')
                return 1.0

            def doPoll(self):
                log(self.name, 'doPoll')
                super().doPoll()

        class NoPoll(M):
            enablePoll = False

        class Other(C.Module):
            def earlyInit(self):
                log(self.name, 'early')
                super().earlyInit()

            def initModule(self):
                log(self.name, 'init')
                super().initModule()
                log(self.name, 'init-done')

            def startModule(self, start_events):
                log(self.name, 'start')
                super().startModule(start_events)

            def shutdownModule(self):
                log(self.name, 'shutdown')

        class Typed(M):
            a1 = C.Attached(C.Drivable, mandatory=False)

        class IOMod(Other):
            uri = C.Property('uri', C.StringType(), default='')

            def communicate(self, cmd):
                return cmd

        class User(self.HasIO, M):
            ioClass = IOMod

            def initModule(self):
                super().initModule()
                log(self.name, 'uses', self.io.name, bool(self.io.initModuleDone), 'init')

        class Pin(self.Pinata):
            src = C.Attached(mandatory=False)       # e.g. the communicator the scan talks through

            def earlyInit(self):
                log(self.name, 'early')
                super().earlyInit()

            def initModule(self):
                log(self.name, 'init')
                super().initModule()
                log(self.name, 'init-done')

            def startModule(self, start_events):
                log(self.name, 'start')
                super().startModule(start_events)

            def shutdownModule(self):
                log(self.name, 'shutdown')

            def scanModules(self):
                if self.src is not None:
                    log(self.name, 'scan-uses', self.src.name)
                for i in range(2):
                    yield f'{self.name}_sub{i}', {'cls': M, 'description': 'scanned'}
        class Mid(self.HasIO, M):
            """a module that talks through a communicator and is itself the communicator of others (an io chain)"""
            def communicate(self, cmd):
                return self.io.communicate(cmd)
        self.Mid = Mid
        self.M, self.NoPoll, self.Other, self.Typed, self.IOMod, self.User, self.Pin = M, NoPoll, Other, Typed, IOMod, User, Pin

    # ---------------------------------------------------------------- scenarios
    def exhaustive(self):
        """all graphs on <= 2 modules (two slots) and all single-slot graphs on 3 modules, every declaration order"""
        out = []
        for n in (1, 2):
            names = [f'm{i}' for i in range(n)]
            targets = [None] + names + ['missing']
            for combo in itertools.product(targets, repeat=2 * n):
                for order in itertools.permutations(range(n)):
                    for use in ('init', 'early'):
                        mods = [{'name': names[i], 'a1': combo[2 * i], 'a2': combo[2 * i + 1], 'use': use} for i in order]
                        out.append({'mods': mods, 'kind': 'exhaustive'})
        n = 3
        names = [f'm{i}' for i in range(n)]
        targets = [None] + names + ['missing']
        for combo in itertools.product(targets, repeat=n):
            for order in itertools.permutations(range(n)):
                mods = [{'name': names[i], 'a1': combo[i], 'a2': None, 'use': 'init'} for i in order]
                out.append({'mods': mods, 'kind': 'exhaustive'})
        return out

    def gen(self, rng):
        n = rng.choice([2, 3, 4, 5])
        names = [f'm{i}' for i in range(n)]
        mods = []
        for i in range(n):
            def pick():
                q = rng.random()
                if q < 0.45:
                    return None
                if q < 0.9:
                    return rng.choice(names)
                return rng.choice(['missing', 'other'])
            m = {'name': names[i], 'a1': pick(), 'a2': pick() if rng.random() < 0.4 else None, 'use': rng.choice(['init', 'init', 'early', 'never']),
                 'cls': rng.choice(['M', 'M', 'M', 'NoPoll', 'Typed']), 'export': rng.random() > 0.15, 'x': rng.choice([None, None, 3.5]),
                 'read_takes': rng.choice([0, 0, 0, 2, 50]), 'shutdown_takes': rng.choice([0, 0, 7]), 'read_fails': rng.random() < 0.1, 'fail': rng.choice([None] * 12 + ['early', 'init'])}
            mods.append(m)
        for m in mods:
            if m['a1'] and rng.random() < (0.4 if m['cls'] == 'Typed' else 0.15):
                m['a1_bare'] = True
        rng.shuffle(mods)
        scen = {'mods': mods, 'kind': 'random', 'other': any(m['a1'] == 'other' or m['a2'] == 'other' for m in mods)}
        q = rng.random()
        if q < 0.2:
            scen['shared_io'] = rng.choice([2, 3])
        elif q < 0.35:
            scen['pinata'] = True
            scen['pinata_first'] = rng.random() < 0.5
            if rng.random() < 0.6:
                # a module attaches the scanning module itself (and may use it while it initialises)
                m = rng.choice(mods)
                m['a2'] = 'pin'
                m['use'] = rng.choice(['init', 'early', 'never'])
            if rng.random() < 0.4:
                # (a plain module only if nobody attaches the scanning module: no cycles through the scan)
                scen['pinata_src'] = 'pin2' if any(m.get('a2') == 'pin' for m in mods) else rng.choice(['pin2', mods[0]['name']])
        if rng.random() < 0.15:
            rng.choice(mods)['own_start'] = rng.choice([[90, 60], [90, 20], [40, 100], [5, 20]])
        if rng.random() < 0.2:
            scen['io_chain'] = {'leaves': rng.choice([1, 2]), 'write': rng.random() < 0.5,
                                'order': [[rng.randrange(4), rng.random()] for _ in range(4)]}
        if rng.random() < 0.3:
            # shut the node down while a short poll (0.3 s, shorter than the time shutdown waits for the poll threads) is in flight
            for m in mods:
                m['read_takes'] = 0.3
                m['read_fails'] = False
            scen['shutdown_in_flight'] = True
            if rng.random() < 0.6:
                scen['shared_io'] = rng.choice([2, 3, 4, 5])       # (several polls of 0.3 s in one round take longer than shutdown waits)
                scen.pop('pinata', None)
                for m in mods:
                    if m.get('a2') == 'pin':
                        m['a2'] = None
        return scen

    def gen_shutdown_race(self, rng):
        n = rng.choice([1, 2, 3])
        mods = [{'name': f'm{i}', 'a1': None, 'a2': None, 'use': 'never', 'cls': 'M', 'export': True, 'x': None,
                 'read_takes': 0, 'shutdown_takes': rng.choice([0, 0, 2]), 'read_fails': False, 'fail': None} for i in range(n)]
        scen = {'mods': mods, 'kind': 'shutdown-race', 'other': False,
                'strategy': ['labels', {'line': rng.choice([0.3, 0.6]), 'event.set': rng.choice([0.0, 0.3])}, 0.0],
                'sched_seed': rng.randrange(1 << 30)}
        if rng.random() < 0.4:
            scen['shared_io'] = 2
        return scen

    def gen_barrier(self, rng):
        n = rng.choice([2, 2, 3, 4])
        mods = [{'name': f'm{i}', 'a1': None, 'a2': None, 'use': 'never', 'cls': 'M', 'export': True, 'x': None,
                 'read_takes': rng.choice([0, 0, 2, 5]), 'shutdown_takes': 0, 'read_fails': False, 'fail': None} for i in range(n)]
        return {'mods': mods, 'kind': 'barrier-race', 'other': False,
                'strategy': ['labels', {'thread.start': rng.choice([0.3, 0.6, 0.9]), 'event.set': rng.choice([0.5, 0.8]),
                                        'acquire': rng.choice([0.0, 0.02])}, 0.0],
                'sched_seed': rng.randrange(1 << 30)}

    def build_cfg(self, scen):
        cfg = {}
        classes = {'M': self.M, 'NoPoll': self.NoPoll, 'Typed': self.Typed}
        for m in scen['mods']:
            cls = classes[m.get('cls', 'M')]
            sub = type(cls.__name__ + '_' + m['name'], (cls,), {'opt': {k: m.get(k) for k in ('use', 'fail', 'read_takes', 'read_fails', 'shutdown_takes', 'own_start')}, '__module__': __name__})
            c = {'cls': sub, 'description': m['name']}
            for slot in ('a1', 'a2'):
                if m.get(slot):
                    if slot == 'a1' and m.get('a1_bare'):
                        # the class fixes the name of the attached module (bare value overriding the property)
                        sub = type(sub.__name__ + 'Fixed', (sub,), {'a1': m[slot], '__module__': __name__})
                        c['cls'] = sub
                    else:
                        c[slot] = m[slot]
            if m.get('export') is False:
                c['export'] = False
            if m.get('x') is not None:
                c['x'] = {'value': m['x']}
            cfg[m['name']] = c
        if scen.get('other'):
            cfg['other'] = {'cls': self.Other, 'description': 'a plain module'}
        for i in range(scen.get('shared_io', 0)):
            cfg[f'u{i}'] = {'cls': type(f'User{i}', (self.User,), {'opt': {'use': 'never', 'read_takes': 0.3 if scen.get('shutdown_in_flight') else 0},
                                                                   '__module__': __name__}), 'description': 'user of a shared communicator',
                            'uri': 'fake://shared'}
        if scen.get('pinata'):
            cfg['pin'] = {'cls': self.Pin, 'description': 'scanner'}
            if scen.get('pinata_src'):
                # the scan uses another module: a second scanning module ('pin2', declared after 'pin') or a plain one
                cfg['pin']['src'] = scen['pinata_src']
                if scen['pinata_src'] == 'pin2':
                    cfg['pin2'] = {'cls': self.Pin, 'description': 'second scanner'}
            if scen.get('pinata_first'):
                cfg = {'pin': cfg.pop('pin'), **cfg}       # declared before its users / after them
        if scen.get('io_chain'):
            # leaf(s) -> mid -> root: mid is polled through root's thread and owns the poll thread of its own users
            chain = {'croot': {'cls': self.IOMod, 'description': 'communicator at the end of an io chain'},
                     'cmid': {'cls': type('MidC', (self.Mid,), {'opt': {'use': 'never'}, '__module__': __name__}), 'description': 'middle of an io chain', 'io': 'croot'}}
            for i in range(scen['io_chain']['leaves']):
                chain[f'cleaf{i}'] = {'cls': type(f'LeafC{i}', (self.User,), {'opt': {'use': 'never'}, '__module__': __name__}), 'description': 'end user of an io chain',
                                      'io': 'cmid', **({'x': {'value': 2.5}} if scen['io_chain'].get('write') and i == 0 else {})}
            order = scen['io_chain']['order']
            names = sorted(chain)
            items = list(cfg.items())
            for k, name in enumerate(order):
                pos = min(len(items), int(name[1] * (len(items) + 1)))
                items.insert(pos, (names[name[0] % len(names)], None))
            # (declaration order: the chain modules are spread over the configuration in the drawn order)
            seen = set()
            cfg2 = {}
            for n_, c_ in items:
                if c_ is None:
                    if n_ in seen:
                        continue
                    seen.add(n_)
                    cfg2[n_] = chain[n_]
                else:
                    cfg2[n_] = c_
            for n_ in names:
                cfg2.setdefault(n_, chain[n_])
            cfg = cfg2
        return cfg

    # ---------------------------------------------------------------- model
    def expectation(self, scen):
        """-> ('error', reason) | ('ok', None)"""
        mods = {m['name']: m for m in scen['mods']}
        for m in scen['mods']:
            if m.get('fail'):
                return 'error', 'failing-' + m['fail']
        for m in scen['mods']:
            if m.get('use') in ('init', 'early'):
                for slot in ('a1', 'a2'):
                    t = m.get(slot)
                    if t == 'missing':
                        return 'error', 'missing-attachment'
                    if slot == 'a1' and m.get('cls') == 'Typed' and t is not None:
                        return 'error', 'wrongly-typed-attachment'
        if self.has_cycle(scen):
            return 'error', 'cyclic-attachment'
        return 'ok', None

    @staticmethod
    def has_cycle(scen):
        """cycles among used edges"""
        mods = {m['name']: m for m in scen['mods']}
        edges = {m['name']: [m.get(s) for s in ('a1', 'a2') if m.get(s) in mods] for m in scen['mods'] if m.get('use') in ('init', 'early')}
        state = {}

        def dfs(u):
            state[u] = 1
            for v in edges.get(u, []):
                if state.get(v) == 1:
                    return True
                if state.get(v) is None and dfs(v):
                    return True
            state[u] = 2
            return False
        for u in list(edges):
            if state.get(u) is None and dfs(u):
                return True
        return False

    # ---------------------------------------------------------------- run + judge
    def run(self, scen, strategy=('seq',), seed=0):
        r, D = self.r, self.D
        self.LOG = []
        self.HasIO.ioDict.clear()
        cfg = self.build_cfg(scen)
        info = {}

        def root():
            s = D.CURRENT
            node = self.nodes.Node(cfg, testonly=False)
            err = io.StringIO()
            info['t0'] = s.now
            try:
                with contextlib.redirect_stderr(err):
                    node.build()
                info['result'] = 'ok'
            except SystemExit as e:
                info['result'] = 'exit'
                info['stderr'] = err.getvalue()[:600]
            except BaseException as e:
                info['result'] = f'raises-{type(e).__name__}'
                info['stderr'] = str(e)[:300]
            info['t_ready'] = s.now
            info['node'] = node
            self.LOG.append((len(self.LOG), s.now, 'node', 'ready', info['result']))
            if info['result'] == 'ok':
                if scen.get('shutdown_in_flight'):
                    D.vsleep(10)
                    limit = s.now + 12
                    while s.now < limit:
                        started = [e for e in self.LOG if e[3] == 'read_value']
                        ended = sum(1 for e in self.LOG if e[3] == 'read_value-end')
                        if len(started) > ended and started[-1][1] > s.now - 0.2:
                            info['in_flight'] = started[-1][2]
                            break
                        D.vsleep(0.02)
                else:
                    D.vsleep(12)
                self.LOG.append((len(self.LOG), s.now, 'node', 'shutdown-call'))
                node.secnode.shutdown_modules()
                self.LOG.append((len(self.LOG), s.now, 'node', 'shutdown-done'))
        if scen.get('strategy'):        # schedule-directed scenarios carry their strategy (replayable)
            strategy, seed = tuple(scen['strategy']), scen['sched_seed']
        # (threads of the harness that sleep beyond the end of the run move the clock: everything gets the time to end)
        grace = 10 + max([m['own_start'][1] for m in scen['mods'] if m.get('own_start')] or [0]) + max([m.get('read_takes') or 0 for m in scen['mods']] or [0])
        s = D.Sched(strategy, seed, horizon=400 + grace, grace=grace, max_steps=400000)
        s.run(root, wall_timeout=90)
        info['preemptions'] = s.npreempt
        return s, info

    def judge(self, scen, s, info):
        r = self.r
        LOG = self.LOG
        case = {'scenario': scen}
        r.count('nodes')
        if s.status in ('watchdog', 'budget'):
            r.inconclusive.append(f'scheduler run ended with {s.status}')
            return
        if s.escaped:
            r.violation('C15/exception-escapes-thread', f'{s.escaped[0][:2]}'[:300], dict(case, traceback=s.escaped[0][2]))
            return
        exp, reason = self.expectation(scen)
        edges = sum(1 for m in scen['mods'] for sl in ('a1', 'a2') if m.get(sl))
        r.case((scen['kind'], tuple((m['name'], m.get('a1'), m.get('a2'), m.get('use')) for m in scen['mods']),
                tuple(sorted(k for k in ('shared_io', 'pinata', 'other') if scen.get(k)))), edges > 0 or exp == 'error')
        if r.want_sample() and edges:
            r.sample({'modules': [{k: v for k, v in m.items() if v not in (None, 0, False)} for m in scen['mods']], 'expected': [exp, reason],
                      'events': [list(e[2:5]) for e in LOG][:14]})
        if s.status != 'ok':
            r.violation(f'C15/run-{s.status}', f'{s.alive[:4]}', case)
            return
        res = info.get('result')
        if exp == 'error':
            r.count('error_nodes')
            if res == 'ok':
                r.violation(f'C15/half-started-node/{reason}', f'the node went on to serve although {reason}', case)
            elif res != 'exit':
                r.violation(f'C15/error-not-reported-as-configuration-error/{reason}', f'{res}: {info.get("stderr", "")[:150]}', case)
            else:
                # also on the way to a refused start: every module is early-initialised and initialised at most once
                for m in ([] if self.has_cycle(scen) else scen['mods']):      # a cycle recurses until the interpreter gives up
                    r.count('error_nodes_init_counts_checked')
                    for kind in ('early', 'init'):
                        n = sum(1 for e in LOG if e[2] == m['name'] and e[3] == kind)
                        if n > 1:
                            r.violation(f'C15/initialised-more-than-once/{"failing" if m.get("fail") else "other"}-module',
                                        f'{m["name"]}: {kind}Init ran {n}x while the node start was refused ({reason})', dict(case, module=m['name']))
                            return
            return
        if res != 'ok':
            r.violation('C15/valid-node-refused', f'{res}: {info.get("stderr", "")[:300]}', case)
            return
        r.count('valid_nodes_started')
        node = info['node']
        names = list(node.secnode.modules)
        # ---- early < init < start, each exactly once
        for name in names:
            ev = [e[3] for e in LOG if e[2] == name and e[3] in ('early', 'init', 'start', 'shutdown')]
            r.count('order_checks')
            if ev != ['early', 'init', 'start', 'shutdown']:
                mod = node.secnode.modules[name]
                what = 'unexported-module' if not mod.export else 'module'
                r.violation(f'C15/lifecycle-order/{what}', f'{name}: {ev} instead of early, init, start, shutdown', dict(case, module=name))
                return
        # ---- a module that uses its attachments while it initialises has got them
        for m in scen['mods']:
            if m.get('use') in ('init', 'early'):
                for slot in ('a1', 'a2'):
                    t = m.get(slot)
                    if t and t in names:
                        r.count('attachments_expected')
                        if not any(e[2] == m['name'] and e[3] == 'uses' and e[4] == t for e in LOG):
                            how = 'fixed-by-the-class' if slot == 'a1' and m.get('a1_bare') else 'configured'
                            r.violation(f'C15/attachment-not-available/{how}', f'{m["name"]}.{slot} = {t!r} ({how}): the module did not get its attached module', dict(case, module=m['name']))
                            return
        # ---- an attached module is fully initialised before its user sees it
        for e in LOG:
            if e[3] == 'uses':
                r.count('attachment_accesses_checked')
                if not e[5]:
                    r.violation('C15/attached-module-seen-before-initialised', f'{e[2]} obtained {e[4]} in {e[6]} before its initModule had returned', case)
                    return
        # ---- configured writes precede the first poll event of the module
        for m in scen['mods']:
            if m.get('x') is not None:
                r.count('write_before_poll_checked')
                mine = [e for e in LOG if e[2] == m['name']]
                w = [i for i, e in enumerate(mine) if e[3] == 'write_x']
                p = [i for i, e in enumerate(mine) if e[3] in ('read_value', 'doPoll')]
                if len(w) != 1 or w[0] > (p[0] if p else 10 ** 9) or mine[w[0]][4] != m['x']:
                    r.violation('C15/configured-write-order', f'{m["name"]}: writes at {w}, first poll event at {p[:1]}', case)
                    return
        # ---- dynamically scanned modules belong to the node wherever the scanning module is declared and whoever attaches it
        if scen.get('pinata'):
            r.count('pinata_nodes')
            missing = [n for n in ('pin_sub0', 'pin_sub1') + (('pin2_sub0', 'pin2_sub1') if scen.get('pinata_src') == 'pin2' else ()) if n not in names]
            if missing:
                users = [m['name'] for m in scen['mods'] if 'pin' in (m.get('a1'), m.get('a2'))]
                r.violation('C15/scanned-modules-missing', f'{missing} were never created (scanning module declared {"first" if scen.get("pinata_first") else "last"}, '
                            f'attached by {users})', case)
                return
        # ---- io chains: every module of the chain is polled (by the thread of the communicator it talks through)
        if scen.get('io_chain'):
            r.count('io_chain_nodes')
            for name in names:
                if name in ('cmid',) or name.startswith('cleaf'):
                    n = sum(1 for e in LOG if e[2] == name and e[3] == 'doPoll')
                    if n < 2:
                        r.violation('C15/io-chain-module-not-polled', f'{name} was polled {n}x in the 12 s between ready and shutdown', dict(case, module=name))
                        return
        # ---- ready only after every poll thread finished its first round or the start time-out elapsed
        r.count('ready_time_checked')
        t0, t_ready = info['t0'], info['t_ready']
        first_round_end = []
        for m in scen['mods']:
            if m.get('cls') != 'NoPoll':
                ends = [e[1] for e in LOG if e[2] == m['name'] and e[3] == 'read_value-end']
                starts = [e[1] for e in LOG if e[2] == m['name'] and e[3] == 'read_value']
                if m.get('read_fails'):
                    first_round_end.append(starts[0] if starts else None)
                else:
                    first_round_end.append(ends[0] if ends else None)
        if any(t is None for t in first_round_end):
            deadline_ok = t_ready >= t0 + 30 - 1e-3
        else:
            need = max(first_round_end or [t0])
            deadline_ok = t_ready >= min(need, t0 + 30) - 1e-3
        for m in scen['mods']:
            if m.get('own_start') and not (m.get('fail') or False):
                grant, takes = m['own_start']
                r.count('own_start_events_checked')
                st = [e[1] for e in LOG if e[2] == m['name'] and e[3] == 'start']
                if st and t_ready < st[0] + min(grant, takes) - 1e-3:
                    r.violation('C15/ready-before-granted-start-time', f'{m["name"]} was granted {grant} s for its start-up work taking {takes} s, ready was reported '
                                f'{t_ready - st[0]:.3f} s after its start', case)
                    return
        if not deadline_ok:
            r.violation('C15/ready-before-first-poll-round', f'ready after {t_ready - t0:.3f} s, first rounds end at {[None if t is None else round(t - t0, 3) for t in first_round_end]}', case)
            return
        if t_ready > t0 + 30 + 55 + max([m['own_start'][0] for m in scen['mods'] if m.get('own_start')] or [0]):
            r.violation('C15/ready-later-than-start-timeout', f'ready after {t_ready - t0:.3f} s', case)
            return
        # ---- shutdown
        r.count('shutdowns_checked')
        sd = {e[2]: e[0] for e in LOG if e[3] == 'shutdown'}
        if info.get('in_flight'):
            # every poll thread is stopped first: a poll in flight that ends within the time shutdown waits for the threads
            # (0.5 s) is over before the first shutdownModule
            r.count('shutdowns_with_poll_in_flight')
            call = next(e for e in LOG if e[3] == 'shutdown-call')
            first_sd = min(sd.values(), default=None)
            ends = [e for e in LOG if e[3] == 'read_value-end' and e[0] > call[0]]
            if first_sd is not None and ends and ends[0][1] - call[1] < 0.4 and ends[0][0] > first_sd:
                which = next(e[2] for e in LOG if e[0] == first_sd)
                r.violation('C15/shutdown-while-poll-in-flight', f'shutdownModule of {which} ran while a poll of {ends[0][2]} was still executing '
                            f'(it ended {ends[0][1] - call[1]:.2f} s after shutdown was requested)', case)
                return
        # every poll thread is stopped first: with polls that take no time (nothing can be in flight) no poll thread is alive
        # any more when the first module is shut down
        if all(not m.get('read_takes') for m in scen['mods']) and not scen.get('shutdown_in_flight'):
            r.count('shutdowns_with_idle_pollers_checked')
            early = [e for e in LOG if e[3] == 'shutdown' and len(e) > 4 and e[4]]
            if early:
                r.violation('C15/module-shut-down-while-poll-thread-alive', f'{early[0][2]} was shut down while {early[0][4]} poll thread(s) were still alive '
                            f'(no poll was executing)', case)
                return
        for name, idx in sd.items():
            later = [e for e in LOG if e[2] == name and e[0] > idx and e[3] in ('doPoll', 'read_value')]
            if later:
                r.violation('C15/poll-event-after-shutdown', f'{name}: {later[0][3]} started after shutdownModule', case)
                return
        for name in names:
            mod = node.secnode.modules[name]
            for other in mod.attachedModules.values():
                if other.name in sd and name in sd and other is not mod and sd[name] > sd[other.name]:
                    r.violation('C15/shutdown-order', f'{other.name} was shut down before its user {name}', case)
                    return
        alive = [a for a in s.alive if '__pollThread' in a[0]]
        if alive:
            r.violation('C15/poll-thread-alive-after-shutdown', f'{alive[:3]}', case)
            return


def run_shard(shard):
    r = rec.Recorder(shard)
    rng = random.Random(f'C15/{shard["seed"]}/{shard["idx"]}')
    w = World(r)
    if not all(w.shim_ok.values()):
        r.inconclusive.append(f'shim binding incomplete: {w.shim_ok}')
        return r.result()
    ex = w.exhaustive()
    mine = ex[shard['idx']::16]
    for scen in mine:
        s, info = w.run(scen)
        w.judge(scen, s, info)
    r.count('exhaustive_graphs', len(mine))
    r.exhaustive = True
    for i in range(shard['n']):
        scen = w.gen(rng)
        strat = ('seq',) if i % 3 else ('rw', 0.1)
        s, info = w.run(scen, strat, rng.randrange(1 << 30))
        w.judge(scen, s, info)
    r.exhaustive = None
    r.count('random_graphs', shard['n'])
    # ---- races at shutdown: the thread that stops the poll threads is preempted between the lines of stopPollThread /
    # joinPollThread while the poll threads wake up
    for i in range(max(8, shard['n'] // 2)):
        scen = w.gen_shutdown_race(rng)
        s, info = w.run(scen)
        w.judge(scen, s, info)
        r.count('shutdown_race_runs')
        if info.get('preemptions'):
            r.count('shutdown_race_runs_with_preemptions')
    # ---- races at the start barrier: a poll thread finishing its first round while the server starts the next module
    # (preemptions directed at thread starts and at the raising of event flags)
    for i in range(max(8, shard['n'] // 2)):
        scen = w.gen_barrier(rng)
        s, info = w.run(scen)
        w.judge(scen, s, info)
        r.count('barrier_race_runs')
        if info.get('preemptions'):
            r.count('barrier_race_runs_with_preemptions')
    return r.result()


def replay(case):
    r = rec.Recorder()
    w = World(r)
    s, info = w.run(case['scenario'])
    w.judge(case['scenario'], s, info)
    return r.result()
