"""C18 - linked parameters stay mutually consistent

monitor: invariants evaluated after every operation of generated sequences on modules using the
convenience parameter kinds (StructParam, FloatEnumParam, Limit parameters, HasControlledBy/HasOutputModule)."""
import random

from vlib import rec

ID = 'C18'
LEVEL = 'exploration'
RULE = ('generated layouts: struct parameter with 2..3 members (combined or separate read/write methods, read-only or '
        'not), float-enum label sets (plain labels with unit prefixes, explicit indices, explicit values), limit '
        'configurations (min, max, limits pair) and 1..3 controllers on one output, optionally beside a second independent output with its own controllers; random operation sequences up to '
        'depth 12 (reads, writes through the module and through the dispatcher, driver-side assignments, hardware '
        'drift, transient driver faults in a member read / write); invariants after EVERY operation, a divergence is attributed to the first operation after which it '
        'appears. distinct = (layout, operation sequence); non-trivial = sequence containing a write or an assignment')
ASSUMPTIONS = ['a read from the hardware may legitimately change values; consistency is judged after each operation returns',
               'hardware drift (the scripted device changes a value by itself) creates no obligation until the next read',
               'after an operation in which an injected driver fault fired, struct and members may disagree until the next '
               'successful read of the struct; from then on they must agree again after every operation']
REQUIRED = ['struct_sequences', 'struct_invariant_checks', 'struct_resynchronised_after_fault', 'floatenum_sequences', 'floatenum_invariant_checks',
            'limit_sequences', 'limit_requests_outside', 'limit_inverted_pairs', 'control_sequences', 'control_takeovers', 'control_frame_checks']

N = {'quick': 150, 'thorough': 8000}


def plan(tier, seed, scale=1.0):
    return [{'idx': i, 'n': int(N[tier] * scale)} for i in range(16)]


class World:
    def __init__(self, r):
        from vlib import nodes, env
        import frappy.core as C
        from frappy.extparams import StructParam, FloatEnumParam
        from frappy.mixins import HasControlledBy, HasOutputModule
        from frappy.errors import SECoPError
        self.r, self.nodes, self.C = r, nodes, C
        self.StructParam, self.FloatEnumParam = StructParam, FloatEnumParam
        self.HasControlledBy, self.HasOutputModule = HasControlledBy, HasOutputModule
        self.SECoPError = SECoPError
        self.env = env

    def node_for(self, cfg):
        return self.nodes.Node(cfg).build()

    # ------------------------------------------------------------ struct / members
    def run_struct(self, rng):
        r, C = self.r, self.C
        combined = rng.random() < 0.5
        readonly = rng.random() < 0.15
        members = rng.sample(['p', 'i', 'd', 'q'], rng.choice([2, 3]))
        hw = {k: float(rng.randint(0, 50)) for k in members}
        ns = {'__module__': __name__,
              'ctrl': self.StructParam('c', {k: C.Parameter(k, C.FloatRange(0, 100)) for k in members}, prefix='m_', readonly=readonly)}
        # transient driver faults: the next read / write touching the armed member fails once
        from frappy.errors import HardwareError
        fail = {'read': set(), 'write': set(), 'fired': 0}

        def maybe_fail(kind, keys):
            hit = fail[kind] & set(keys)
            if hit:
                fail[kind] -= hit
                fail['fired'] += 1
                fail['last_kind'] = kind
                raise HardwareError(f'transient {kind} failure at {sorted(hit)}')
        # hardware that takes only some values (a coarser grid): what it holds afterwards is what both sides show
        coarse = rng.random() < 0.3

        def coerce(x):
            return x - x % 2 if coarse else x
        if coarse:
            r.count('struct_sequences_with_coercing_hardware')
        if combined:
            def read_ctrl(self):
                maybe_fail('read', members)
                return dict(hw)
            ns['read_ctrl'] = read_ctrl
            if not readonly:
                def write_ctrl(self, v):
                    maybe_fail('write', members)
                    hw.update({k_: coerce(x_) for k_, x_ in v.items()})
                    return dict(hw)
                ns['write_ctrl'] = write_ctrl
        else:
            for k in members:
                def rd(self, k=k):
                    maybe_fail('read', [k])
                    return hw[k]
                ns[f'read_m_{k}'] = rd
                if not readonly:
                    def w(self, v, k=k):
                        maybe_fail('write', [k])
                        hw[k] = coerce(v)
                        return hw[k]
                    ns[f'write_m_{k}'] = w
        inherited = combined and rng.random() < 0.4
        if inherited:
            # the combined access methods come from a hardware mixin / base class, the struct is declared by the module class
            mix = type('HwMixin', (), {k: ns.pop(k) for k in ('read_ctrl', 'write_ctrl') if k in ns})
            cls = type('SMod', (mix, C.Module), ns)
        else:
            cls = type('SMod', (C.Module,), ns)
        # the configuration may hide one side of the link from the clients (export=False): the link holds all the same
        hidden = None
        scfg = {'cls': cls, 'description': 'x'}
        if rng.random() < 0.25:
            hidden = 'ctrl' if combined or rng.random() < 0.3 else 'm_' + rng.choice(members)
            scfg[hidden] = {'export': False}
        node = self.node_for({'s': scfg})
        m = node.secnode.modules['s']
        conn = self.nodes.Conn()
        node.dispatcher.add_connection(conn)
        # (the class shape is not part of the mechanism keys: where the methods are defined must not matter)
        layout = f'{"combined" if combined else "separate"}{"-ro" if readonly else ""}'
        if hidden:
            layout += '+hidden-struct' if hidden == 'ctrl' else '+hidden-member'
            r.count('struct_sequences_with_a_hidden_side')
        if inherited:
            r.count('struct_sequences_with_inherited_access_methods')
        ops = []
        diverged = False
        suspended = False     # after a failed access the pair may disagree until the next successful read of the struct
        for step in range(rng.randint(3, 12)):
            choices = ['read_struct', 'read_member', 'hw_drift', 'assign_member', 'assign_struct', 'read_struct_wire', 'fail_read']
            if not readonly:
                choices.append('fail_write')
            if not readonly:
                choices += ['write_struct', 'write_member', 'change_struct_wire', 'change_member_wire', 'change_partial_wire']
            op = rng.choice(choices)
            k = rng.choice(members)
            v = float(rng.randint(0, 100))
            full = {kk: float(rng.randint(0, 100)) for kk in members}
            if suspended and op.startswith('assign'):
                # driver-side assignments are the mechanism of listed findings; while nothing is judged (after a fault)
                # they would be blamed on the re-synchronising read
                continue
            if hidden:
                # (what is hidden can not be reached over the wire; the driver-side assignments of the listed findings are left out)
                if op == ('assign_member' if combined else 'assign_struct'):
                    continue
                if hidden == 'ctrl':
                    op = {'read_struct_wire': 'read_struct', 'change_struct_wire': 'write_struct', 'change_partial_wire': 'write_struct'}.get(op, op)
                elif op == 'change_member_wire' and 'm_' + k == hidden:
                    op = 'write_member'
            ops.append([op, k, v])
            fired0 = fail['fired']
            try:
                pre_div = m.ctrl.get(k) != getattr(m, 'm_' + k)     # set apart before this operation (listed mechanisms)?
            except Exception:
                pre_div = True
            try:
                if op in ('fail_read', 'fail_write'):
                    fail[op[5:]].add(k)
                    continue
                if op == 'read_struct':
                    m.read_ctrl()
                elif op == 'write_struct':
                    m.write_ctrl(full)
                elif op == 'read_member':
                    getattr(m, 'read_m_' + k)()
                elif op == 'write_member':
                    getattr(m, 'write_m_' + k)(v)
                elif op == 'hw_drift':
                    hw[k] = v
                    continue
                elif op == 'assign_member':
                    setattr(m, 'm_' + k, v)
                elif op == 'assign_struct':
                    m.ctrl = full
                elif op == 'read_struct_wire':
                    node.dispatcher.handle_request(conn, ('read', 's:_ctrl', None))
                elif op == 'change_struct_wire':
                    node.dispatcher.handle_request(conn, ('change', 's:_ctrl', full))
                elif op == 'change_partial_wire':
                    node.dispatcher.handle_request(conn, ('change', 's:_ctrl', {k: v}))
                elif op == 'change_member_wire':
                    node.dispatcher.handle_request(conn, ('change', f's:_m_{k}', v))
            except Exception as e:
                if fail['fired'] > fired0 and isinstance(e, self.SECoPError):
                    # the injected driver fault surfaced as an error of this operation
                    r.count('struct_driver_faults_surfaced')
                    suspended = True
                    if not pre_div and not self.readback_failed_consistently(m, [k], op, combined, fail, layout, ops, inherited, readonly):
                        break
                    continue
                r.violation(f'C18/struct/{layout}/raises/{op}', f'{op} raised {type(e).__name__}: {e}'[:200],
                            {'sub': 'struct', 'combined': combined, 'inherited': inherited, 'readonly': readonly, 'members': members, 'ops': ops})
                break
            if fail['fired'] > fired0:
                r.count('struct_driver_faults_swallowed')    # the operation caught the fault itself (error stored as read error)
                suspended = True
                if not pre_div and not self.readback_failed_consistently(m, [k], op, combined, fail, layout, ops, inherited, readonly):
                    break
                continue
            if suspended:
                if op not in ('read_struct', 'read_struct_wire'):
                    continue
                suspended = False
                r.count('struct_resynchronised_after_fault')
            r.count('struct_invariant_checks')
            # error states agree as well: after a successful read of the struct no member is left in error state
            # (members that were never read start as 'not initialized' in the separate layout: judged after struct reads only)
            if m.parameters['ctrl'].readerror is None and op in ('read_struct', 'read_struct_wire'):
                r.count('struct_error_state_checks')
                inerr = [kk for kk in members if m.parameters['m_' + kk].readerror is not None]
                if inerr:
                    r.violation(f'C18/struct/{layout}/member-stays-in-error-after/{op}',
                                f'after {op}: the struct holds {dict(m.ctrl)} without error, the members {inerr} are still in error state '
                                f'({m.parameters["m_" + inerr[0]].readerror!r})'[:250],
                                {'sub': 'struct', 'combined': combined, 'inherited': inherited, 'readonly': readonly, 'members': members, 'ops': ops})
                    break
            st = m.ctrl
            bad = [kk for kk in members if st.get(kk) != getattr(m, 'm_' + kk)]
            if bad and not diverged:
                diverged = True
                r.violation(f'C18/struct/{layout}/diverged-after/{op}',
                            f'after {op}: struct {dict(st)} but members { {kk: getattr(m, "m_" + kk) for kk in members} }'[:250],
                            {'sub': 'struct', 'combined': combined, 'inherited': inherited, 'readonly': readonly, 'members': members, 'ops': ops})
            elif not bad:
                diverged = False      # a later operation re-synchronised the pair
        r.count('struct_sequences')
        r.case(('struct', layout, tuple(o[0] for o in ops)), any(o[0].startswith(('write', 'change', 'assign')) for o in ops))
        if r.want_sample():
            r.sample({'layout': 'struct ' + layout, 'members': members, 'ops': ops[:8]})

    def readback_failed_consistently(self, m, members, op, combined, fail, layout, ops, inherited, readonly):
        """a member write whose struct write went through but whose read-back failed: the device has taken the value, struct and
        the written member both show what the device returned with the write (the error concerns the read-back only; other
        members may have been set apart earlier by the driver-side assignments of the listed findings)"""
        if not (combined and op in ('write_member', 'change_member_wire') and fail.get('last_kind') == 'read'):
            return True
        r = self.r
        r.count('struct_member_writes_with_failing_read_back')
        st = m.ctrl
        bad = [kk for kk in members if st.get(kk) != getattr(m, 'm_' + kk)]
        if bad:
            r.violation(f'C18/struct/{layout}/diverged-after/{op}-with-failing-read-back',
                        f'after {op} (struct written, read-back failed): struct {dict(st)} but members { {kk: getattr(m, "m_" + kk) for kk in members} }'[:250],
                        {'sub': 'struct', 'combined': combined, 'inherited': inherited, 'readonly': readonly, 'members': members, 'ops': ops})
            return False
        return True

    # ------------------------------------------------------------ float / enum pair
    LABELSETS = [(['500uV', '20mV', '1V'], 'V'), (['1mA', '10mA', '100mA', '1A'], 'A'),
                 ([(3, '10mK'), (5, '100mK'), (9, '1K')], 'K'), ([('low', 0.5), ('mid', 2.0), ('high', 8.0)], ''),
                 ([(2, 'a', 1.0), (0, 'b', 1.5), (7, 'c', -3.0)], ''), (['1V', '2V'], 'V'), (['100kOhm', '1MOhm', '10MOhm'], 'Ohm')]

    def run_floatenum(self, rng):
        r, C = self.r, self.C
        labels, unit = rng.choice(self.LABELSETS)
        with_read = rng.random() < 0.5
        hw = {}
        ns = {'__module__': __name__, 'rng_': self.FloatEnumParam('range', labels, unit)}

        coerce = rng.random() < 0.35      # the hardware supports only some of the indices and takes the closest one

        def write_rng__idx(self, v):
            v = int(v)
            if coerce:
                vd = self.parameters['rng_'].valuedict
                sup = hw.setdefault('supported', sorted(rng.sample(sorted(vd), max(1, len(vd) - 1))))
                v = min(sup, key=lambda i: (abs(vd[i] - vd.get(v, 0)), i))
            hw['idx'] = v
            return v
        ns['write_rng__idx'] = write_rng__idx
        if with_read:
            ns['read_rng__idx'] = lambda self: hw.get('idx', self.parameters['rng__idx'].value)
        cls = type('FMod', (C.Module,), ns)
        fcfg = {'cls': cls, 'description': 'x'}
        hidden_idx = rng.random() < 0.25
        if hidden_idx:
            # the index is hidden from the clients by the configuration: the float still follows it
            fcfg['rng__idx'] = {'export': False}
            r.count('floatenum_sequences_with_hidden_index')
        node = self.node_for({'f': fcfg})
        m = node.secnode.modules['f']
        conn = self.nodes.Conn()
        node.dispatcher.add_connection(conn)
        vdict = m.parameters['rng_'].valuedict
        case = {'sub': 'floatenum', 'labels': repr(labels), 'unit': unit, 'coercing_hardware': coerce, 'hidden_index': hidden_idx, 'ops': []}
        if coerce:
            r.count('floatenum_sequences_with_coercing_hardware')
        touched = False
        for step in range(rng.randint(2, 10)):
            op = rng.choice(['write_float', 'write_idx', 'change_float_wire', 'change_idx_wire', 'assign_idx', 'read_idx', 'read_float_wire'])
            idx = rng.choice(list(vdict))
            lo, hi = min(vdict.values()), max(vdict.values())
            v = rng.choice([vdict[idx], vdict[idx] * 1.3, lo, hi, (lo + hi) / 2, lo + (hi - lo) * rng.random()])
            v = min(max(v, lo), hi)
            if hidden_idx and op == 'change_idx_wire':
                op = 'write_idx'
            case['ops'].append([op, idx, v])
            try:
                if op == 'write_float':
                    m.write_rng_(v)
                elif op == 'change_float_wire':
                    node.dispatcher.handle_request(conn, ('change', 'f:_rng_', v))
                elif op == 'write_idx':
                    m.write_rng__idx(idx)
                elif op == 'change_idx_wire':
                    node.dispatcher.handle_request(conn, ('change', 'f:_rng__idx', idx))
                elif op == 'assign_idx':
                    m.rng__idx = idx
                elif op == 'read_idx':
                    m.read_rng__idx()
                elif op == 'read_float_wire':
                    node.dispatcher.handle_request(conn, ('read', 'f:_rng_', None))
            except Exception as e:
                r.violation(f'C18/floatenum/raises/{op}', f'{op}({idx}, {v}) raised {type(e).__name__}: {e}'[:200], case)
                break
            touched = touched or op not in ('read_idx', 'read_float_wire')
            r.count('floatenum_invariant_checks')
            cur = int(m.rng__idx)
            shown = m.parameters['rng_'].value
            if m.rng_ != vdict[cur] or (touched and shown != vdict[cur]):
                r.violation(f'C18/floatenum/value-not-of-current-index/{op}' + ('/with-hidden-index' if hidden_idx else ''),
                            f'index {cur} -> {vdict[cur]} but parameter shows {m.rng_} / cache {shown}', case)
                break
            if op in ('write_float', 'change_float_wire') and not coerce:
                best = min(abs(x - v) for x in vdict.values())
                if abs(vdict[cur] - v) > best * (1 + 1e-12):
                    r.violation('C18/floatenum/not-closest', f'write {v}: selected {vdict[cur]} but {best} is the minimal distance', case)
                    break
        r.count('floatenum_sequences')
        r.case(('floatenum', repr(labels), tuple(o[0] for o in case['ops'])), True)

    # ------------------------------------------------------------ limits
    def run_limits(self, rng):
        r, C = self.r, self.C
        kind = rng.choice(['minmax', 'limits', 'max-only', 'min-only'])
        ns = {'__module__': __name__, 'written': None}
        if kind in ('minmax', 'max-only'):
            ns['target_max'] = C.Limit()
        if kind in ('minmax', 'min-only'):
            ns['target_min'] = C.Limit()
        decl = 'Limit()'
        if kind == 'limits':
            # the limits parameter is declared the usual way, or with an explicit datatype (copied at class creation and per instance)
            from frappy.datatypes import LimitsType, FloatRange
            decl = rng.choice(['Limit()', 'Limit()', 'Limit(datatype)', 'Parameter(LimitsType)'])
            if decl == 'Limit()':
                ns['target_limits'] = C.Limit()
            elif decl == 'Limit(datatype)':
                ns['target_limits'] = C.Limit(datatype=LimitsType(FloatRange(-100, 100)))
            else:
                ns['target_limits'] = C.Parameter('limits of the target', LimitsType(FloatRange(-100, 100)), readonly=False, default=(-100, 100))
        ns['target'] = C.Parameter('t', C.FloatRange(-100, 100), readonly=False)
        ns['value'] = C.Parameter('v', C.FloatRange(-100, 100))

        def write_target(self, v):
            self.written.append(v)
            return v
        ns['write_target'] = write_target
        cls = type('LMod', (C.Drivable,), ns)
        node = self.node_for({'l': {'cls': cls, 'description': 'x'}})
        m = node.secnode.modules['l']
        m.written = []
        conn = self.nodes.Conn()
        node.dispatcher.add_connection(conn)
        lo, hi = -100.0, 100.0
        if kind == 'limits':
            lo, hi = (float(x) for x in m.target_limits)       # (an explicit datatype without default starts at (0, 0))
        limits_wire = m.parameters['target_limits'].export if kind == 'limits' else None      # a plain Parameter is exported as _target_limits
        case = {'sub': 'limits', 'kind': kind, 'declared': decl, 'ops': []}
        for step in range(rng.randint(3, 12)):
            op = rng.choice(['target', 'target', 'setlim'])
            via = rng.choice(['module', 'wire'])
            if op == 'setlim':
                a, b = sorted(float(rng.randint(-100, 100)) for _ in range(2))
                if kind == 'limits':
                    inverted = rng.random() < 0.3 and a != b
                    pair = [b, a] if inverted else [a, b]
                    case['ops'].append(['set_limits', via, pair])
                    r.count('limit_inverted_pairs' if inverted else 'limit_pairs')
                    try:
                        if via == 'module':
                            m.write_target_limits(tuple(pair))
                        else:
                            node.dispatcher.handle_request(conn, ('change', f'l:{limits_wire}', pair))
                        ok = True
                    except self.SECoPError:
                        ok = False
                    except Exception as e:
                        r.violation('C18/limits/raises/set-limits', f'{type(e).__name__}: {e}'[:200], case)
                        break
                    if inverted and ok:
                        r.violation('C18/limits/inverted-pair-accepted', f'target_limits {pair} accepted', case)
                        break
                    if not inverted and not ok:
                        r.violation('C18/limits/valid-pair-refused', f'target_limits {pair} refused', case)
                        break
                    if ok:
                        lo, hi = pair
                else:
                    which = rng.choice([w for w in ('min', 'max') if f'target_{w}' in ns])
                    val = a if which == 'min' else b
                    case['ops'].append(['set_' + which, via, val])
                    try:
                        if via == 'module':
                            getattr(m, 'write_target_' + which)(val)
                        else:
                            node.dispatcher.handle_request(conn, ('change', f'l:target_{which}', val))
                    except self.SECoPError:
                        continue
                    if which == 'min':
                        lo = val
                    else:
                        hi = val
            else:
                v = rng.choice([lo, hi, lo - 1, hi + 1, (lo + hi) / 2, float(rng.randint(-100, 100)), lo - 0.001, hi + 0.001])
                v = min(max(v, -100.0), 100.0)
                case['ops'].append(['target', via, v])
                n0 = len(m.written)
                try:
                    if via == 'module':
                        m.write_target(v)
                    else:
                        node.dispatcher.handle_request(conn, ('change', 'l:target', v))
                    ok = True
                except self.SECoPError:
                    ok = False
                except Exception as e:
                    r.violation('C18/limits/raises/target', f'{type(e).__name__}: {e}'[:200], case)
                    break
                inside = lo <= v <= hi and not lo > hi
                if not inside:
                    r.count('limit_requests_outside')
                if ok and not inside:
                    r.violation(f'C18/limits/{kind}/outside-accepted', f'target {v} accepted with current limits [{lo}, {hi}]', case)
                    break
                if not ok and inside:
                    r.violation(f'C18/limits/{kind}/inside-refused', f'target {v} refused with current limits [{lo}, {hi}]', case)
                    break
                if (len(m.written) - n0) != (1 if ok else 0):
                    r.violation(f'C18/limits/{kind}/driver-call-count', f'{len(m.written) - n0} driver calls for a request that was {"accepted" if ok else "refused"}', case)
                    break
        r.count('limit_sequences')
        r.case(('limits', kind, tuple((o[0], o[1]) for o in case['ops'])), True)

    # ------------------------------------------------------------ controllers
    def run_control(self, rng):
        r, C = self.r, self.C
        nctl = rng.choice([1, 2, 3])

        class Out(self.HasControlledBy, C.Writable):
            def write_target(self, v):
                self.self_controlled()
                return v

        from frappy.errors import CommunicationFailedError
        faults = set()       # controllers whose hardware refuses to be switched off, once

        class Ctl(self.HasOutputModule, C.Writable):
            def set_control_active(self, active):
                if not active and self.name in faults:
                    faults.discard(self.name)
                    raise CommunicationFailedError('the controller does not answer')
                super().set_control_active(active)

            def write_target(self, v):
                self.activate_control()
                if self.output_module:
                    self.output_module.update_target(self.name, v)
                return v
        # one or two independent chains (output + its controllers); operations on one chain must not touch the other
        nchains = rng.choice([1, 1, 2])
        cfg = {}
        layout = []
        for ch in range(nchains):
            oname = 'out' if ch == 0 else f'out{ch + 1}'
            cfg[oname] = {'cls': Out, 'description': 'o'}
            n = nctl if ch == 0 else rng.choice([1, 2])
            names = [f'{"cde"[ch]}{i}' for i in range(n)]
            for cn in names:
                cfg[cn] = {'cls': Ctl, 'description': 'c', 'output_module': oname}
            layout.append((oname, names))
        if rng.random() < 0.3:
            cfg['free'] = {'cls': Ctl, 'description': 'controller without output'}
        if nchains > 1 and rng.random() < 0.5:
            # declaration order is part of the configuration space
            items = list(cfg.items())
            rng.shuffle(items)
            cfg = dict(items)
        node = self.node_for(cfg)
        mods = node.secnode.modules
        chains = [(mods[o], [mods[c] for c in cs]) for o, cs in layout]
        conn = self.nodes.Conn()
        node.dispatcher.add_connection(conn)
        case = {'sub': 'control', 'controllers': nctl, 'chains': [[o, cs] for o, cs in layout], 'ops': []}

        def state(chain):
            o, cs = chain
            cb = o.controlled_by
            return (getattr(cb, 'name', cb), tuple(c.name for c in cs if c.control_active))
        prev_active = {}
        for step in range(rng.randint(3, 12)):
            ci = rng.randrange(nchains)
            out, ctls = chains[ci]
            who = rng.choice(ctls + [out] + ([mods['free']] if 'free' in cfg else []))
            via = rng.choice(['module', 'wire'])
            if who in ctls and rng.random() < 0.25:
                via = 'regulate'       # the controller's driver pushes an output value, whether it is in control or not
            failing = None
            if via != 'regulate' and who in ctls and prev_active.get(ci) and prev_active[ci] not in (who.name, 'self') and rng.random() < 0.3:
                # the controller in charge fails to switch off (a communication error) while another one takes over: the
                # take-over fails as a whole - nothing has changed
                failing = prev_active[ci]
                faults.add(failing)
            case['ops'].append([who.name, via] + ([f'{failing} fails to switch off'] if failing else []))
            before = [state(c) for c in chains]
            if failing:
                r.count('control_takeovers_with_a_failing_switch_off')
                try:
                    if via == 'module':
                        who.write_target(float(step))
                    else:
                        node.dispatcher.handle_request(conn, ('change', f'{who.name}:target', float(step)))
                    outcome = 'ok'
                except self.SECoPError as e:
                    outcome = type(e).__name__
                except Exception as e:
                    r.violation('C18/control/raises', f'{who.name}.write_target raised {type(e).__name__}: {e}'[:200], case)
                    break
                faults.discard(failing)
                after = [state(c) for c in chains]
                o_name, act = after[ci]
                if outcome != 'ok' and after != before:
                    r.violation('C18/control/failed-take-over-changes-state',
                                f'{who.name} could not take over ({outcome}: {failing} did not switch off): state went from {before[ci]} to {after[ci]}', case)
                    break
                if len(act) > 1 or (act and o_name != act[0]):
                    r.violation('C18/control/output-names-wrong-controller', f'after the take-over attempt of {who.name}: controlled_by = {o_name}, active = {list(act)}', case)
                    break
                if outcome == 'ok':
                    prev_active[ci] = who.name
                continue
            try:
                if via == 'regulate':
                    out.update_target(who.name, float(step))
                    r.count('control_regulate_ops')
                    changed = [cj for cj, c in enumerate(chains) if state(c) != before[cj]]
                    if changed:
                        r.violation('C18/control/update-target-changes-control',
                                    f'{who.name} pushed an output value (update_target): chain {changed[0]} went from {before[changed[0]]} to {state(chains[changed[0]])}', case)
                        break
                    one = [c.name for c in ctls if c.control_active]
                    cbn = getattr(out.controlled_by, 'name', out.controlled_by)
                    if len(one) > 1 or (one and cbn != one[0]) or (not one and cbn != 'self' and prev_active.get(ci)):
                        r.violation('C18/control/output-names-wrong-controller', f'after update_target by {who.name}: controlled_by = {cbn}, active = {one}', case)
                        break
                    continue
                if via == 'module':
                    who.write_target(float(step))
                else:
                    node.dispatcher.handle_request(conn, ('change', f'{who.name}:target', float(step)))
            except Exception as e:
                r.violation('C18/control/raises', f'{who.name}.write_target raised {type(e).__name__}: {e}'[:200], case)
                break
            bad_frame = False
            for cj, c in enumerate(chains):
                if (cj != ci or who.name == 'free') and state(c) != before[cj]:
                    r.count('control_frame_checks')
                    r.violation('C18/control/other-chain-changed', f'{who.name} (chain {ci}) took control: chain {cj} went from {before[cj]} to {state(c)}', case)
                    bad_frame = True
                elif cj != ci:
                    r.count('control_frame_checks')
            if bad_frame:
                break
            active = [c.name for c in ctls if c.control_active]
            cb = out.controlled_by
            name = getattr(cb, 'name', cb)
            if prev_active.get(ci) and who.name != prev_active[ci] and who.name != 'free':
                r.count('control_takeovers')
            if len(active) > 1:
                r.violation('C18/control/more-than-one-active', f'{active} all marked as controlling after {who.name} took over', case)
                break
            if who.name != 'free':
                expect = who.name if who is not out else 'self'
                if name != expect:
                    r.violation('C18/control/output-names-wrong-controller', f'controlled_by = {name}, expected {expect}', case)
                    break
                if who is not out and active != [who.name]:
                    r.violation('C18/control/new-controller-not-active', f'active = {active} after {who.name} took over', case)
                    break
                if who is out and active:
                    r.violation('C18/control/previous-controller-not-switched-off', f'{active} still active after the output took control', case)
                    break
                prev_active[ci] = who.name
        r.count('control_sequences')
        r.case(('control', nctl, tuple(tuple(o) for o in case['ops'])), True)


def run_shard(shard):
    r = rec.Recorder(shard)
    rng = random.Random(f'C18/{shard["seed"]}/{shard["idx"]}')
    w = World(r)
    for i in range(shard['n']):
        w.run_struct(rng)
        w.run_floatenum(rng)
        w.run_limits(rng)
        w.run_control(rng)
    return r.result()


def replay(case):
    r = rec.Recorder()
    w = World(r)
    rng = random.Random(3)
    fn = {'struct': w.run_struct, 'floatenum': w.run_floatenum, 'limits': w.run_limits, 'control': w.run_control}[case['sub']]
    for _ in range(400):
        fn(rng)
    return r.result()
