"""C04 - no invalid, forbidden or out-of-limit request ever reaches the driver

monitor: protocol-level reference model built from the generator's ground truth (vlib.modgen) vs the
real RequestHandler -> Dispatcher -> write wrapper -> recording fake driver."""
import contextlib
import io
import json
import random

from vlib import rec, refdt, gen_dt, modgen

ID = 'C04'
LEVEL = 'exploration'
RULE = ('generated nodes (1..3 generated module classes: random parameter/command sets over all datatypes, readonly / '
        'constant / export flags, limit parameters, check hooks) x request sequences of change / do lines sent as bytes '
        'through the real request handler: valid, invalid by type, by range, by limit, by name (unknown, unexported, '
        'internal instead of wire name), by access (read-only, constant), after histories that moved the dynamic '
        'limits; plus a two-thread scenario: a change request arriving while another thread is inside an access method '
        'that moves the limit (the driver call must respect the limit in force when it happens). distinct = (request class, datatype kind, expected outcome); non-trivial = every request that is not a '
        'plain valid change')
ASSUMPTIONS = ['ground truth = the generator spec (never derived from the built class)',
               'payload verdicts come from vlib.refdt; candidates in the tolerance band (either) are accepted both ways',
               'a parameter whose class declares its limit parameters itself has either limits or a check hook (a custom check in the same class replaces the automatic limit check by design); when a subclass adds the limits, the inherited hook and the automatic limit check both apply',
               'requests are sent one per connection so that driver events can be attributed to a request']
REQUIRED = ['nodes', 'requests', 'expect_refused', 'expect_accepted', 'driver_calls_checked', 'limit_moves', 'refused_by_limit',
            'do_requests', 'snapshots_compared', 'limit_race_runs', 'limit_race_writer_met_the_lock', 'struct_race_runs']

N = {'quick': 60, 'thorough': 3000}
BADVALUE = {'WrongType', 'RangeError', 'BadValue'}


def plan(tier, seed, scale=1.0):
    return [{'idx': i, 'n': max(1, int(N[tier] * scale)), 'nrace': 12 if tier == 'quick' else 400} for i in range(16)]


class FakeSock:
    def __init__(self, data):
        self.data = [data]
        self.out = []

    def settimeout(self, t):
        pass

    def recv(self, n):
        return self.data.pop(0) if self.data else b''

    def sendall(self, b):
        self.out.append(bytes(b))

    def send(self, b):
        n = min(len(b), 700)       # like socket.send: may take only a part
        self.out.append(bytes(b[:n]))
        return n

    def shutdown(self, how):
        pass

    def close(self):
        pass


def nested_partial(spec, w, depth=0):
    t = spec['type']
    if t == 'struct' and isinstance(w, dict):
        if depth and set(spec['members']) - set(k for k, v in w.items() if v is not None):
            return True
        return any(nested_partial(spec['members'][k], v, depth + 1) for k, v in w.items() if k in spec['members'])
    if t == 'array' and isinstance(w, list):
        return any(nested_partial(spec['members'], v, depth + 1) for v in w)
    if t == 'tuple' and isinstance(w, list):
        return any(nested_partial(m, v, depth + 1) for m, v in zip(spec['members'], w))
    return False


class World:
    def __init__(self, r, rng):
        from vlib import env, nodes
        from frappy.protocol.interface.tcp import TCPRequestHandler
        self.r, self.rng = r, rng
        self.nodes, self.env = nodes, env
        self.Handler = TCPRequestHandler

    def build(self, mspecs):
        self.events = []
        self.hw = {}
        cfg = {}
        for ms in mspecs:
            cls = modgen.build_class(ms, self.events, hw=self.hw)
            if ms.get('redeclare'):
                # a subclass declares some parameters again (a property override): limits and check hooks of the base class
                # still apply
                import frappy.core as C_
                over = {p['name']: C_.Parameter(group='regrouped') for p in ms['params']
                        if (p.get('limits') or p.get('check')) and p['constant'] is None}
                if over:
                    cls = type(cls.__name__ + 'Redeclared', (cls,), dict(over, __module__=cls.__module__))
                    self.r.count('classes_redeclaring_parameters_with_limits_or_hooks')
            cfg[ms['name']] = modgen.module_cfg(ms, cls)
            if not ms['export']:
                # the configuration of an unexported module may still carry export settings of single accessibles (left
                # over from the time it was exported): nothing of the module is reachable all the same
                for k, a in enumerate(ms['params'] + ms['commands']):
                    if a.get('constant') is None and k % 2 == 0:
                        cfg[ms['name']][a['name']] = {'export': True if k % 4 == 0 else '_cfgx_' + a['name']}
                        ms.setdefault('cfg_export', {})[a['name']] = cfg[ms['name']][a['name']]['export']
        self.node = self.nodes.Node(cfg).build()
        self.server = type('Srv', (), {})()
        self.server.dispatcher = self.node.dispatcher
        self.server.log = self.env.Log('iface')
        self.server.detailed_errors = False
        self.observer = self.nodes.Conn('observer')
        self.node.dispatcher.add_connection(self.observer)
        self.node.dispatcher.handle_request(self.observer, ('activate', None, None))
        del self.observer.out[:]

    def send(self, line):
        fs = FakeSock(line + b'\n')
        buf = io.StringIO()
        with contextlib.redirect_stdout(buf):
            self.Handler(fs, ('127.0.0.1', 7), self.server)
        out = b''.join(fs.out).decode('utf-8').split('\n')[:-1]
        replies = [l for l in out if not l.startswith(('update ', 'error_update ', 'log '))]
        if len(replies) != 1:
            return None, out
        parts = replies[0].split(' ', 2)
        return (parts[0], parts[1] if len(parts) > 1 else '', json.loads(parts[2]) if len(parts) > 2 else None), out

    def snapshot(self):
        snap = {}
        for mn, m in self.node.secnode.modules.items():
            for pn, p in m.parameters.items():
                snap[(mn, pn)] = (repr(p.value), repr(p.readerror), p.timestamp)
        return snap

    # ---------------------------------------------------------------- request generation + model
    def run_node(self, idx):
        r, rng = self.r, self.rng
        mspecs = [modgen.gen_module(rng, f'm{i}') for i in range(rng.choice([1, 2, 3]))]
        for ms in mspecs:
            # class shape: limits declared beside the parameter, or added by a subclass of the class that defines the
            # parameter; in the second shape an inherited check hook and the automatic limit check both apply
            ms['split_limits'] = rng.random() < 0.4
            ms['redeclare'] = rng.random() < 0.3
            ms['const_errors'] = rng.random() < 0.4
            # the write methods may be made by frappy.rwhandler.WriteHandler from one method of the driver
            ms['write_handler'] = rng.random() < 0.3
            for p in ms['params']:
                if p['limits'] and p['check'] and not ms['split_limits']:
                    p['check'] = None
                if p['limits'] and not p['check'] and ms['split_limits'] and rng.random() < 0.5:
                    p['check'] = 'reject-odd-length'      # a hook of the parent class that never objects to numbers
                if p['limits'] and p['check']:
                    r.count('params_with_limits_added_beside_an_inherited_check_hook')
        try:
            self.build(mspecs)
        except BaseException as e:
            r.violation('C04/node-build-fails', f'{type(e).__name__}: {e}'[:300], {'mspecs': mspecs})
            return
        r.count('nodes')
        limits = {}     # (module, param) -> [lo, hi] in python-side units
        for ms in mspecs:
            for p in ms['params']:
                if p['limits']:
                    limits[(ms['name'], p['name'])] = list(modgen.type_limits(p['spec']))
        history = []
        for step in range(rng.randint(10, 40)):
            if rng.random() < 0.1:
                # history: a read of a writable parameter fails in the driver - the parameter is in error state (the cached
                # value stays) when the next changes arrive; partial structs are still merged into the cached value
                cands = [(ms, p) for ms in mspecs if ms['export'] for p in ms['params'] if p['has_read'] and modgen.wire_name(p)
                         and p['constant'] is None]
                structs = [c for c in cands if c[1]['spec']['type'] == 'struct' and not c[1]['readonly']]
                if cands:
                    ms_, p_ = rng.choice(structs or cands)
                    from frappy.errors import HardwareError
                    self.hw[('__fail__', ms_['name'], p_['name'], 'read')] = HardwareError('injected read fault')
                    line = f'read {ms_["name"]}:{modgen.wire_name(p_)}'
                    history.append(line + '    (the driver fails)')
                    reply, raw = self.send(line.encode('utf-8'))
                    self.hw.pop(('__fail__', ms_['name'], p_['name'], 'read'), None)
                    if reply is not None and reply[0].startswith('error_'):
                        r.count('failed_reads_before_changes')
            req = self.gen_request(mspecs, limits)
            history.append(req['line'])
            case = {'mspecs': mspecs, 'history': history[-12:], 'request': req['line'], 'class': req['klass']}
            before = self.snapshot()
            n0 = len(self.events)
            del self.observer.out[:]
            reply, raw = self.send(req['line'].encode('utf-8'))
            after = self.snapshot()
            new_events = [e for e in self.events[n0:] if e[0] in ('write', 'cmd')]
            r.count('requests')
            exp = req['expect']
            tk = req.get('tk', '-')
            r.case((req['klass'], tk, exp['kind']), req['klass'] != 'valid-change')
            if r.want_sample() and req['klass'] not in ('valid-change',) and step % 7 == 0:
                r.sample({'request': req['line'][:160], 'class': req['klass'], 'expected': exp['kind'], 'reply': (raw[-1] if raw else '')[:160]})
            if reply is None:
                r.violation('C04/no-single-reply', f'{len(raw)} output lines', dict(case, output=raw[:5]))
                return
            action = reply[0]
            is_err = action.startswith('error_')
            if exp['kind'] == 'refuse':
                r.count('expect_refused')
                key = None
                if not is_err:
                    key = f'C04/accepted-must-refuse/{req["klass"]}/{tk}'
                elif reply[2][0] not in exp['classes']:
                    key = f'C04/wrong-error-class/{req["klass"]}/{reply[2][0]}'
                elif new_events:
                    key = f'C04/driver-reached-although-refused/{req["klass"]}'
                elif before != after:
                    r.count('snapshots_compared')
                    key = f'C04/cache-changed-although-refused/{req["klass"]}'
                elif self.observer.out:
                    key = f'C04/update-emitted-although-refused/{req["klass"]}'
                r.count('snapshots_compared')
                if req['klass'] == 'outside-limits':
                    r.count('refused_by_limit')
                if key:
                    r.violation(key, f'{req["line"][:100]} -> {raw[-1][:160]}; driver events {new_events[:2]}', dict(case, reply=raw[-1][:300]))
                    return
            elif exp['kind'] == 'accept':
                r.count('expect_accepted')
                key = None
                if is_err:
                    key = f'C04/refused-valid/{req["klass"]}/{tk}/{reply[2][0]}'
                elif len(new_events) != exp['calls']:
                    key = f'C04/driver-call-count/{req["klass"]}/{len(new_events)}-instead-of-{exp["calls"]}'
                else:
                    r.count('driver_calls_checked')
                    key = self.check_accepted(req, exp, reply, new_events, mspecs)
                if key:
                    r.violation(key, f'{req["line"][:100]} -> {raw[-1][:160]}; driver events {new_events[:2]}', dict(case, reply=raw[-1][:300]))
                    return
                if req.get('moves_limit') and not is_err:
                    k, which, val = req['moves_limit']
                    r.count('limit_moves')
                    if which == 'pair':
                        limits[k] = list(val)
                    else:
                        limits[k][0 if which == 'min' else 1] = val
            else:  # either: only the consistency between verdict and effects is judged
                if is_err and (new_events or before != after or self.observer.out):
                    r.violation(f'C04/effects-although-refused/{req["klass"]}', f'{req["line"][:100]} -> {raw[-1][:160]}', dict(case, reply=raw[-1][:300]))
                    return
                if not is_err and req.get('moves_limit'):
                    k, which, val = req['moves_limit']
                    cur = self.node.secnode.modules[k[0]].parameters
                    # re-read the model from what was accepted (band values are clamped)
                    if which == 'pair':
                        limits[k] = list(cur[k[1] + '_limits'].value)
                    else:
                        limits[k][0 if which == 'min' else 1] = cur[f'{k[1]}_{which}'].value

    def check_accepted(self, req, exp, reply, new_events, mspecs):
        """-> violation key or None"""
        if req['action'] == 'change':
            p = req['param']
            if reply[0] != 'changed' or reply[1] != req['specifier']:
                return 'C04/wrong-reply-action'
            val = reply[2][0]
            prev = req['prev_exported']
            if not refdt.member(p['spec'], val) or not refdt.same_wire(p['spec'], req['payload'], val, prev):
                return f'C04/reply-value-differs/{p["spec"]["type"]}'
            if new_events:
                kind, mod, name, arg = new_events[0]
                from vlib import dtbuild
                try:
                    exported = json.loads(json.dumps(dtbuild.build(p['spec']).export_value(arg)))
                except Exception:
                    return f'C04/driver-got-unexportable-value/{p["spec"]["type"]}'
                if (mod, name) != (req['module'], p['name']) or not refdt.same_wire(p['spec'], req['payload'], exported, prev):
                    return f'C04/driver-value-differs/{p["spec"]["type"]}'
            cached = self.node.secnode.modules[req['module']].parameters[p['name']].export_value()
            if json.loads(json.dumps(cached)) != val:
                return 'C04/cache-differs-from-reply'
            return None
        c = req['command']
        self.r.count('do_requests')
        if reply[0] != 'done' or reply[1] != req['specifier']:
            return 'C04/wrong-reply-action'
        want = c['result_value'] if c['result'] else None
        if c['result'] and c['result']['type'] == 'double':
            want = float(want)
        if reply[2][0] != want:
            return 'C04/command-result-differs'
        kind, mod, name, arg = new_events[0]
        if (kind, mod, name) != ('cmd', req['module'], c['name']):
            return 'C04/wrong-command-called'
        if c['arg'] is not None:
            from vlib import dtbuild
            dt = dtbuild.build(c['arg'])
            try:
                if c['arg']['type'] == 'struct':
                    given = {k: v for k, v in arg.items() if v is not None}
                    exported = json.loads(json.dumps({k: dt.members[k].export_value(v) for k, v in given.items()}))
                else:
                    exported = json.loads(json.dumps(dt.export_value(arg)))
            except Exception:
                return f'C04/driver-got-unexportable-argument/{c["arg"]["type"]}'
            if not refdt.same_wire(c['arg'], req['payload'], exported):
                return f'C04/command-argument-differs/{c["arg"]["type"]}'
        return None

    def gen_request(self, mspecs, limits):
        rng = self.rng
        ms = rng.choice(mspecs)
        mname = ms['name']
        q = rng.random()
        # ---- addressing errors
        if q < 0.06:
            bad = rng.choice(['nosuch', 'M0', mname + 'x', ''])
            act = rng.choice(['change', 'do'])
            line = f'{act} {bad}:_p0 1' if bad else f'{act} :_p0 1'
            return {'line': line, 'klass': 'unknown-module', 'expect': {'kind': 'refuse', 'classes': {'NoSuchModule', 'ProtocolError'}}}
        if not ms['export']:
            p = rng.choice(ms['params'])
            wn = modgen.wire_name(p) or '_' + p['name']
            cx = ms.get('cfg_export', {}).get(p['name'])
            if cx is not None and rng.random() < 0.7:
                wn = cx if isinstance(cx, str) else rng.choice(['_' + p['name'], p['name']])      # the name the configuration asked for
            return {'line': f'change {mname}:{wn} {json.dumps(p["default"])}', 'klass': 'unexported-module',
                    'expect': {'kind': 'refuse', 'classes': {'NoSuchModule', 'NoSuchParameter'}}, 'tk': p['spec']['type']}
        if q < 0.45 and ms['commands'] or (not ms['params']):
            return self.gen_do(ms)
        p = rng.choice(ms['params'])
        lim = [x for x in ms['params'] if (ms['name'], x['name']) in limits and x['export']]
        if lim and rng.random() < 0.4:
            p = rng.choice(lim)       # histories that move the dynamic limits and then probe them
            hooked = [x for x in lim if x['check']]
            if hooked and rng.random() < 0.5:
                p = rng.choice(hooked)    # ... in particular those whose parent class already has a check hook
        wn = modgen.wire_name(p)
        tk = p['spec']['type']
        valid = gen_dt.gen_valid(p['spec'], rng)
        payload = json.loads(json.dumps(valid))
        base = {'action': 'change', 'module': mname, 'param': p, 'tk': tk}
        q = rng.random()
        if wn is None:
            name = rng.choice(['_' + p['name'], p['name']])
            return dict(base, line=f'change {mname}:{name} {json.dumps(payload)}', klass='unexported-parameter',
                        expect={'kind': 'refuse', 'classes': {'NoSuchParameter'}})
        if q < 0.08:
            other = rng.choice([p['name'] if wn != p['name'] else '_' + p['name'], wn + 'x', 'nosuch', wn.upper() if wn.upper() != wn else wn + '_'])
            return dict(base, line=f'change {mname}:{other} {json.dumps(payload)}', klass='unknown-parameter',
                        expect={'kind': 'refuse', 'classes': {'NoSuchParameter'}})
        if q < 0.12 and ms['commands']:
            c = rng.choice(ms['commands'])
            cw = modgen.wire_name(c)
            if cw:
                return dict(base, line=f'change {mname}:{cw} 1', klass='change-a-command', expect={'kind': 'refuse', 'classes': {'NoSuchParameter'}})
        if p['constant'] is not None or p['readonly']:
            return dict(base, line=f'change {mname}:{wn} {json.dumps(payload)}', klass='constant' if p['constant'] is not None else 'readonly',
                        expect={'kind': 'refuse', 'classes': {'ReadOnly'}})
        # ---- writable parameter
        pobj = self.node.secnode.modules[mname].parameters[p['name']]
        try:
            prev_exported = json.loads(json.dumps(pobj.export_value()))
        except Exception:
            prev_exported = None
        base.update(specifier=f'{mname}:{wn}', prev_exported=prev_exported)
        key = (mname, p['name'])
        if key in limits and q < 0.3:
            return self.gen_limit_move(ms, p, limits, base)
        if q < 0.6:
            payload = gen_dt.mutate(p['spec'], valid, rng)
            if p['spec']['type'] in ('array', 'tuple') and rng.random() < 0.35:
                # other things that have a length: a text or an object where a list is due
                payload = rng.choice(['', {}, 'ab', {'a': 1}, 'a', {'a': 1, 'b': 2}])
            try:
                payload = json.loads(json.dumps(payload))
            except Exception:
                payload = None
            klass = 'hostile-payload'
        else:
            klass = 'valid-change'
        if key in limits and tk in modgen.NUMERIC and rng.random() < 0.8 and klass == 'valid-change':
            lo, hi = limits[key]
            cands = [lo, hi, lo - self.step(p), hi + self.step(p), (lo + hi) / 2 if lo <= hi else lo]
            v = rng.choice(cands)
            payload = self.to_wire_number(p['spec'], v)
        cl = refdt.classify_wire(p['spec'], payload) if payload is not None or True else 'reject'
        if p['spec']['type'] == 'struct' and cl != 'reject' and isinstance(payload, dict) and prev_exported is None:
            cl = 'either'
        line = f'change {mname}:{wn} {json.dumps(payload)}'
        base.update(line=line, payload=payload, klass=klass)
        if payload is None:
            # 'change m:p null' carries no data: frappy imports None
            cl = 'reject'
        if cl == 'reject':
            return dict(base, klass='hostile-payload' if klass != 'valid-change' else 'invalid-payload',
                        expect={'kind': 'refuse', 'classes': BADVALUE | ({'ProtocolError'} if payload is None else set())})
        if nested_partial(p['spec'], payload):
            # known mechanism (see C01): a partial struct below the top level is stored as it is and can
            # not be exported afterwards; judged on its effects only, under its own class
            return dict(base, klass='nested-partial-struct', expect={'kind': 'either'})
        if cl == 'either':
            return dict(base, expect={'kind': 'either'})
        # limits / hooks (python-side value)
        if key in limits and tk in modgen.NUMERIC and refdt.is_number(payload):
            lo, hi = limits[key]
            v = payload * p['spec']['scale'] if tk == 'scaled' else payload
            inverted = lo > hi
            eps = abs(v) * 1e-9 + 1e-12
            if inverted and p['limits'] != 'limits':
                return dict(base, klass='outside-limits', expect={'kind': 'refuse', 'classes': {'RangeError'}})
            # decided on the differences (v and the bounds may differ by about one eps: hi + eps can round to v itself)
            dlo, dhi = lo - v, v - hi
            if dlo > 2 * eps or dhi > 2 * eps:
                return dict(base, klass='outside-limits', expect={'kind': 'refuse', 'classes': {'RangeError'}})
            if dlo > -2 * eps or dhi > -2 * eps:
                cl = 'either'
        if p['check'] == 'reject-all':
            return dict(base, klass='check-hook', expect={'kind': 'refuse', 'classes': {'RangeError'}})
        if p['check'] == 'reject-odd-length' and isinstance(payload, (str, list, dict)):
            n = len(payload) if not (tk == 'blob') else None
            if tk == 'blob':
                import base64
                n = len(base64.b64decode(payload))
            if tk == 'struct':
                n = len(set(payload) | set(prev_exported or {}))
            if n % 2:
                return dict(base, klass='check-hook', expect={'kind': 'refuse', 'classes': {'RangeError'}})
        if cl == 'either':
            return dict(base, expect={'kind': 'either'})
        return dict(base, expect={'kind': 'accept', 'calls': 1 if p['has_write'] else 0})

    @staticmethod
    def step(p):
        return p['spec']['scale'] if p['spec']['type'] == 'scaled' else 1

    @staticmethod
    def to_wire_number(spec, v):
        if spec['type'] == 'scaled':
            return int(round(v / spec['scale']))
        if spec['type'] == 'int':
            return int(round(v))
        return float(v)

    def gen_limit_move(self, ms, p, limits, base):
        rng = self.rng
        key = (ms['name'], p['name'])
        tlo, thi = modgen.type_limits(p['spec'])
        lo, hi = limits[key]
        spec = p['spec']

        def pick():
            span = thi - tlo if thi - tlo < 1e300 else 1e6
            x = rng.choice([tlo, thi, tlo + span * rng.random(), lo, hi])
            return self.to_wire_number(spec, x)
        lname = rng.choice(modgen.limit_params(p))
        wn = modgen.limit_wire_name(p, lname)
        if lname.endswith('_limits'):
            a, b = pick(), pick()
            if rng.random() < 0.75:
                a, b = min(a, b), max(a, b)
            payload = [a, b]
            pairspec = {'type': 'tuple', 'members': [spec, spec]}
            cl = refdt.classify_wire(pairspec, payload)
            line = f'change {ms["name"]}:{wn} {json.dumps(payload)}'
            out = dict(base, line=line, payload=payload, specifier=f'{ms["name"]}:{wn}', klass='move-limits',
                       param={'name': lname, 'spec': pairspec, 'has_write': False}, prev_exported=None)
            if cl == 'reject':
                return dict(out, expect={'kind': 'refuse', 'classes': BADVALUE})
            if a > b:
                return dict(out, klass='inverted-limits', expect={'kind': 'refuse', 'classes': {'RangeError'}})
            mult = spec['scale'] if spec['type'] == 'scaled' else 1
            out['moves_limit'] = (key, 'pair', (a * mult, b * mult))
            return dict(out, expect={'kind': 'accept' if cl == 'accept' else 'either', 'calls': 0})
        which = lname.rpartition('_')[2]
        payload = pick()
        cl = refdt.classify_wire(spec, payload)
        line = f'change {ms["name"]}:{wn} {json.dumps(payload)}'
        out = dict(base, line=line, payload=payload, specifier=f'{ms["name"]}:{wn}', klass='move-limit',
                   param={'name': lname, 'spec': spec, 'has_write': False}, prev_exported=None)
        if cl == 'reject':
            return dict(out, expect={'kind': 'refuse', 'classes': BADVALUE})
        mult = spec['scale'] if spec['type'] == 'scaled' else 1
        out['moves_limit'] = (key, which, payload * mult)
        return dict(out, expect={'kind': 'accept' if cl == 'accept' else 'either', 'calls': 0})

    def gen_do(self, ms):
        rng = self.rng
        mname = ms['name']
        if not ms['commands']:
            return {'line': f'do {mname}:_nosuch', 'klass': 'unknown-command', 'expect': {'kind': 'refuse', 'classes': {'NoSuchCommand'}}}
        c = rng.choice(ms['commands'])
        cw = modgen.wire_name(c)
        base = {'action': 'do', 'module': mname, 'command': c, 'tk': c['arg']['type'] if c['arg'] else 'none'}
        q = rng.random()
        arg = gen_dt.gen_valid(c['arg'], rng) if c['arg'] else None
        argtxt = '' if arg is None else ' ' + json.dumps(arg)
        if cw is None:
            return dict(base, line=f'do {mname}:_{c["name"]}{argtxt}', klass='unexported-command', expect={'kind': 'refuse', 'classes': {'NoSuchCommand'}})
        if q < 0.1:
            other = rng.choice([c['name'] if c['name'] != cw else '_x' + c['name'], cw + 'x', '_p0', 'value'])
            return dict(base, line=f'do {mname}:{other}{argtxt}', klass='unknown-command', expect={'kind': 'refuse', 'classes': {'NoSuchCommand'}})
        base['specifier'] = f'{mname}:{cw}'
        if c['arg'] is None:
            if q < 0.3:
                return dict(base, line=f'do {mname}:{cw} {json.dumps(rng.choice([1, "x", [1], {"a": 1}, True, 0, 0.0, False, "", [], {}]))}', klass='argument-not-expected',
                            expect={'kind': 'refuse', 'classes': BADVALUE | {'ProtocolError'}})
            return dict(base, line=f'do {mname}:{cw}', payload=None, klass='valid-do', expect={'kind': 'accept', 'calls': 1})
        if q < 0.2:
            return dict(base, line=f'do {mname}:{cw}', klass='argument-missing', expect={'kind': 'refuse', 'classes': BADVALUE | {'ProtocolError'}})
        if q < 0.55:
            arg = gen_dt.mutate(c['arg'], arg, rng)
            try:
                arg = json.loads(json.dumps(arg))
            except Exception:
                arg = None
        cl = refdt.classify_wire(c['arg'], arg) if arg is not None else 'reject'
        line = f'do {mname}:{cw} {json.dumps(arg)}'
        base.update(line=line, payload=arg)
        if cl == 'reject':
            return dict(base, klass='invalid-argument', expect={'kind': 'refuse', 'classes': BADVALUE | ({'ProtocolError'} if arg is None else set())})
        if cl == 'either':
            return dict(base, klass='valid-do', expect={'kind': 'either'})
        return dict(base, klass='valid-do', expect={'kind': 'accept', 'calls': 1})


def run_read_race(w, r, rng, inj_holder):
    """an access (read or change) is atomic with storing and announcing its result: a change of the same parameter by a
    second thread, injected before the k-th line of the generated read wrapper, either happens completely before the
    driver is read or completely after the result was stored - afterwards the cache holds what the hardware holds"""
    import frappy.core as C
    from vlib import lineinject
    hw = {'v': 1.0}
    events = []

    def read_x(self):
        events.append(('read', hw['v']))
        return hw['v']

    def write_x(self, v):
        events.append(('write', v))
        hw['v'] = v
        return v
    cls = type('ReadRaceMod', (C.Module,), {'__module__': __name__, 'x': C.Parameter('x', C.FloatRange(0, 1000), readonly=False, default=1.0),
                                            'read_x': read_x, 'write_x': write_x})
    node = w.nodes.Node({'m': {'cls': cls, 'description': 'x'}}).build()
    mod = node.secnode.modules['m']
    wrapper = type(mod).read_x
    if inj_holder.get('inj') is None:
        inj_holder['inj'] = lineinject.LineInjector(wrapper, name='c04-read-race')
    inj = inj_holder['inj']
    k = rng.randint(1, 14)
    v2 = float(rng.randint(2, 900))
    errors = []

    def other():
        try:
            mod.write_x(v2)
        except Exception as e:
            errors.append(repr(e))
    inj.arm(k, other)
    try:
        mod.read_x()
    except Exception as e:
        errors.append(repr(e))
    injected = inj.disarm()
    r.count('read_race_runs')
    if not injected:
        r.count('read_race_point_not_reached')
        return
    r.count('read_race_injections')
    r.case(('read-race', k), True)
    case = {'kind': 'read-race', 'k': k, 'value_written_by_the_second_thread': v2, 'events': events}
    if errors:
        r.violation('C04/read-race/raises', f'{errors[:2]}', case)
        return
    if mod.parameters['x'].value != hw['v']:
        r.violation('C04/read-race/cache-differs-from-hardware', f'a change to {v2} by a second thread before line {k} of the read wrapper: afterwards the hardware holds '
                    f'{hw["v"]}, the cache {mod.parameters["x"].value} (driver events {events})', case)


def run_limit_race(w, r, rng):
    """'satisfies the module's CURRENT dynamic limits': a change request that arrives while another thread (the poller)
    is inside an access method which moves the limit.  The driver write, if it happens, must see a value inside the
    limits in force at that moment; the reply must be consistent with it.  Real threads, no sleeps: the reader blocks
    in its driver until the writer is known to wait for (or to have passed) the module's access lock."""
    import threading
    import frappy.core as C
    from frappy.params import Limit
    kind = rng.choice(['max', 'min', 'limits'])
    lo, hi = 0.0, 100.0
    if kind == 'max':
        old, new = (lo, 80.0), (lo, float(rng.randint(10, 50)))
        probe = float(rng.randint(int(new[1]) + 1, 79))
    elif kind == 'min':
        old, new = (20.0, hi), (float(rng.randint(50, 90)), hi)
        probe = float(rng.randint(21, int(new[0]) - 1))
    else:
        old, new = (10.0, 90.0), (float(rng.randint(30, 40)), float(rng.randint(50, 60)))
        probe = float(rng.choice([rng.randint(11, int(new[0]) - 1), rng.randint(int(new[1]) + 1, 89)]))
    inside, go, waiting = threading.Event(), threading.Event(), threading.Event()
    events = []
    limname = 'x_' + kind

    def cur_limits(mod):
        if kind == 'limits':
            return tuple(mod.x_limits)
        return (mod.x_min, hi) if kind == 'min' else (lo, mod.x_max)

    def write_x(self, v):
        events.append(('write', v, cur_limits(self)))
        return v

    def read_lim(self):
        if not go.is_set():
            inside.set()
            go.wait(10)
        return new if kind == 'limits' else (new[0] if kind == 'min' else new[1])
    ns = {'__module__': __name__, 'x': C.Parameter('x', C.FloatRange(lo, hi), readonly=False, default=50.0),
          limname: Limit(), 'write_x': write_x, 'read_' + limname: read_lim}
    cls = type('RaceMod', (C.Module,), ns)
    cfg = {'m': {'cls': cls, 'description': 'x', limname: {'value': list(old) if kind == 'limits' else (old[0] if kind == 'min' else old[1])}}}
    node = w.nodes.Node(cfg).build()
    mod = node.secnode.modules['m']
    go.set()
    getattr(mod, 'read_' + limname)      # exists
    go.clear()
    # the old limits are in force (configured); make the writer observable at the module's access lock
    real_lock = mod.accessLock
    writer_id = []

    class LockProxy:
        def __enter__(self_):
            if writer_id and threading.get_ident() == writer_id[0]:
                waiting.set()
            return real_lock.__enter__()

        def __exit__(self_, *a):
            return real_lock.__exit__(*a)

        def acquire(self_, *a, **k):
            return real_lock.acquire(*a, **k)

        def release(self_):
            return real_lock.release()
    mod.accessLock = LockProxy()
    server = type('Srv', (), {})()
    server.dispatcher, server.log, server.detailed_errors = node.dispatcher, w.env.Log('iface'), False
    result = {}

    def reader():
        try:
            getattr(mod, 'read_' + limname)()
        except Exception as e:
            result['reader_error'] = repr(e)

    def writer():
        writer_id.append(threading.get_ident())
        fs = FakeSock(f'change m:_x {probe}\n'.encode())
        buf = io.StringIO()
        try:
            w.Handler(fs, ('127.0.0.1', 7), server)
        except Exception as e:
            result['writer_error'] = repr(e)
        result['out'] = b''.join(fs.out).decode('utf-8').split('\n')[:-1]
    tr = threading.Thread(target=reader)
    tr.start()
    if not inside.wait(10):
        r.inconclusive.append('limit race: reader never reached its driver')
        go.set()
        return
    tw = threading.Thread(target=writer)
    tw.start()
    reached = waiting.wait(5)
    go.set()
    tr.join(10)
    tw.join(10)
    if tr.is_alive() or tw.is_alive():
        r.inconclusive.append('limit race: threads did not finish')
        return
    r.count('limit_race_runs')
    if reached:
        r.count('limit_race_writer_met_the_lock')
    case = {'kind': 'limit-race', 'limit': limname, 'old': old, 'new': new, 'probe': probe}
    out = result.get('out') or []
    replies = [l for l in out if not l.startswith(('update ', 'error_update '))]
    writes = [e for e in events if e[0] == 'write']
    r.case(('limit-race', kind), True)
    if 'reader_error' in result or 'writer_error' in result or len(replies) != 1:
        r.violation('C04/limit-race/raises', f'{result}'[:300], case)
        return
    for _, v, lims in writes:
        r.count('driver_calls_checked')
        if not (lims[0] <= v <= lims[1]):
            r.violation('C04/limit-race/driver-called-outside-current-limits',
                        f'write_x({v}) called while {limname} is {lims} (the limit was moved by a concurrent read before the write started)', case)
            return
    accepted = replies[0].startswith('changed ')
    if accepted != bool(writes):
        r.violation('C04/limit-race/reply-inconsistent-with-driver', f'reply {replies[0][:80]!r}, driver calls {writes}', case)
        return
    if r.want_sample():
        r.sample({'limit race': limname, 'old': old, 'new': new, 'probe': probe, 'reply': replies[0][:60], 'driver_calls': len(writes)})


def run_struct_race(w, r, rng):
    """'a partial struct merged into the CURRENT value': two connections send partial changes of the same struct
    parameter; the second arrives while the driver is still busy with the first.  Every driver call must receive the
    value cached at that moment with the members of its own request replaced."""
    import threading
    import frappy.core as C
    members = rng.sample(['a', 'b', 'c', 'd'], rng.choice([2, 3]))
    start = {k: rng.randint(0, 9) for k in members}
    k1, k2 = rng.sample(members, 2)
    p1, p2 = {k1: rng.randint(10, 19)}, {k2: rng.randint(20, 29)}
    inside, go, waiting = threading.Event(), threading.Event(), threading.Event()
    calls = []

    def write_cfg(self, v):
        calls.append((dict(v), dict(self.cfg)))
        if len(calls) == 1:
            inside.set()
            go.wait(10)
        return v
    ns = {'__module__': __name__, 'write_cfg': write_cfg,
          'cfg': C.Parameter('cfg', C.StructOf(**{k: C.IntRange(0, 100) for k in members}), readonly=False, default=start)}
    cls = type('StructRaceMod', (C.Module,), ns)
    node = w.nodes.Node({'m': {'cls': cls, 'description': 'x'}}).build()
    mod = node.secnode.modules['m']
    real_lock = mod.accessLock
    second = []

    class LockProxy:
        def __enter__(self_):
            if second and threading.get_ident() == second[0]:
                waiting.set()
            return real_lock.__enter__()

        def __exit__(self_, *a):
            return real_lock.__exit__(*a)

        def acquire(self_, *a, **k):
            return real_lock.acquire(*a, **k)

        def release(self_):
            return real_lock.release()
    mod.accessLock = LockProxy()
    server = type('Srv', (), {})()
    server.dispatcher, server.log, server.detailed_errors = node.dispatcher, w.env.Log('iface'), False
    outs = {}

    def client(idx, payload):
        if idx == 2:
            second.append(threading.get_ident())
        fs = FakeSock(f'change m:_cfg {json.dumps(payload)}\n'.encode())
        try:
            w.Handler(fs, ('127.0.0.1', 7 + idx), server)
        except Exception as e:
            outs[f'error{idx}'] = repr(e)
        outs[idx] = b''.join(fs.out).decode('utf-8').split('\n')[:-1]
    t1 = threading.Thread(target=client, args=(1, p1))
    t1.start()
    if not inside.wait(10):
        r.inconclusive.append('struct race: first request never reached the driver')
        go.set()
        return
    t2 = threading.Thread(target=client, args=(2, p2))
    t2.start()
    if waiting.wait(0.05):
        r.count('struct_race_second_request_met_the_access_lock')
    go.set()
    t1.join(10)
    t2.join(10)
    if t1.is_alive() or t2.is_alive():
        r.inconclusive.append('struct race: threads did not finish')
        return
    r.count('struct_race_runs')
    case = {'kind': 'struct-race', 'start': start, 'requests': [p1, p2]}
    r.case(('struct-race', len(members)), True)
    if 'error1' in outs or 'error2' in outs or len(calls) != 2:
        r.violation('C04/struct-race/raises-or-call-count', f'{outs} calls={calls}'[:300], case)
        return
    for (v, cached), payload in zip(calls, (p1, p2)):
        r.count('driver_calls_checked')
        want = dict(cached, **payload)
        if v != want:
            r.violation('C04/struct-race/partial-struct-merged-into-stale-value',
                        f'driver got {v} for the request {payload} while the cache held {cached} (expected {want})', dict(case, calls=[list(c) for c in calls]))
            return
    final = dict(mod.cfg)
    if final != dict(start, **p1, **p2):
        r.violation('C04/struct-race/acknowledged-change-lost', f'after both acknowledged changes the parameter is {final}', case)


def run_shard(shard):
    r = rec.Recorder(shard)
    rng = random.Random(f'C04/{shard["seed"]}/{shard["idx"]}')
    w = World(r, rng)
    for i in range(shard['n']):
        w.run_node(i)
    for i in range(shard.get('nrace', 12)):
        run_limit_race(w, r, rng)
        run_struct_race(w, r, rng)
    holder = {}
    try:
        for i in range(shard.get('nrace', 12) * 3):
            run_read_race(w, r, rng, holder)
    finally:
        if holder.get('inj') is not None:
            holder['inj'].close()
    return r.result()


def replay(case):
    """re-run the recorded request history on the recorded module specs"""
    r = rec.Recorder()
    rng = random.Random(0)
    w = World(r, rng)
    try:
        w.build(case['mspecs'])
    except BaseException as e:
        r.violation('C04/node-build-fails', f'{type(e).__name__}: {e}'[:300], {'mspecs': case['mspecs']})
        return r.result()
    for line in case.get('history', []):
        if line.endswith('    (the driver fails)'):
            from frappy.errors import HardwareError
            line = line[:-len('    (the driver fails)')]
            mod, par = line.split()[1].split(':')
            for ms in case['mspecs']:
                for p_ in ms['params']:
                    if ms['name'] == mod and modgen.wire_name(p_) == par:
                        w.hw[('__fail__', mod, p_['name'], 'read')] = HardwareError('injected read fault')
        reply, raw = w.send(line.encode('utf-8'))
    r.note('replay re-sends the recorded history; the verdict is recomputed only by a full run')
    r.case(('replay',), True)
    return r.result()
