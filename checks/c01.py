"""C01 - datatype validation is sound, canonical and total

monitor: reference-model oracle (vlib.refdt) over (datatype tree, candidate, previous value) triples,
on the wire path validate(import_value(c), previous) - exactly what the dispatcher does - and on the
driver path T(v) / T.validate(v, previous)."""
import json
import zlib
import random

from vlib import rec, refdt, gen_dt

ID = 'C01'
LEVEL = 'exploration'
RULE = ('random datainfo trees (depth<=3, all leaf kinds, boundary catalogues) x candidates (valid values; one '
        'position replaced by every JSON kind / boundary number / wrong length / unknown, missing, null member) x '
        'previous values (none, equal, shorter, longer). distinct = (path, tree shape, type kind and offered kind at '
        'the first unnatural position, relation to previous, outcome class); non-trivial = candidate is not a plain '
        'valid value or a previous value of different length is supplied')
ASSUMPTIONS = ['vlib.refdt is an independent re-statement of the documented datainfo semantics (trusted)',
               'lazy_number_validation stays at its default (False)',
               'driver path: DataType.__call__ is judged without numeric limits (documented: conversion only), '
               'lengths/arity/members always',
               'bool for a number, whole float for an int, enum name for its code, +-inf -> +-max float are '
               'documented conversions and not flagged']
REQUIRED = ['wire_cases', 'drv_cases', 'oracle_sound', 'oracle_same', 'oracle_idempotent', 'oracle_reject']

N = {'quick': 40000, 'thorough': 1500000}


def plan(tier, seed, scale=1.0):
    n = int(N[tier] * scale)
    return [{'idx': i, 'n': n} for i in range(16)]


def jdump(x):
    return json.loads(json.dumps(x))


class Monitor:
    def __init__(self, r):
        self.r = r
        from vlib import dtbuild
        self.B = dtbuild
        from frappy.errors import BadValueError
        self.Bad = BadValueError

    JSONKINDS = ('null', 'bool', 'int', 'float', 'str', 'list', 'obj', 'bytes', 'set', 'nonfinite')

    def viol(self, clause, path, di, cand, lp, extra, case):
        """classification key = mechanism: failing clause x path group x type kind at the first unnatural
        position x what was offered there (for containers every wrong JSON kind is one class)"""
        tk, off = lp if lp else (di['type'], 'valid')
        if tk in ('array', 'tuple', 'struct') and off in self.JSONKINDS:
            off = 'wrongkind'
        if extra and extra.startswith('export-raises'):
            off += '+export-raises'
            if extra.endswith('+previous-element-ignored'):
                off += '+previous-element-ignored'
        pg = 'wire' if path == 'wire' else 'drv'
        key = f'C01/{clause}/{pg}/{tk}/{off}'
        self.pending = (key, f'{clause} on {path} path: {tk} offered {off} {extra or ""}', case)

    def run_case(self, di, cand, prev_w, path):
        """path: 'wire' | 'drv-validate' | 'drv-call'.  prev_w: complete wire value or None"""
        self.pending = None
        self._run_case(di, cand, prev_w, path, self.r)
        if self.pending is None:
            return
        key, what, case = self.pending
        if prev_w is not None and di['type'] in ('array', 'tuple'):
            # attribution by differential re-execution: does the violation need the previous value?
            self.pending = None
            self._run_case(di, cand, None, path, rec.Recorder())
            if self.pending is None:
                clause = key.split('/')[1]
                key = f'C01/previous-value-dependent/{"wire" if path == "wire" else "drv"}/{clause}'
                what = 'with a previous value of another length/shape: ' + what
        self.r.violation(key, what, case)

    def _run_case(self, di, cand, prev_w, path, r):
        B = self.B
        dt = B.build(di)
        # member objects of foreign enums: the code under test gets the object, the model sees its integer code (a member
        # object stands for its code: the result must be a member of the DECLARED enum, or the value is refused)
        real, cand = materialise(cand), model_view(cand)
        if real is not cand:
            r.count('foreign_enum_member_candidates')
        case = {'spec': di, 'cand': rec.jsonable(cand), 'prev': prev_w, 'path': path}
        py = path != 'wire'
        limits = path != 'drv-call'
        prev = None
        if prev_w is not None:
            try:
                prev = dt(gen_dt.to_py(di, prev_w))
            except Exception as e:
                self.viol('valid-value-rejected', 'drv-call', di, prev_w, None, type(e).__name__, case)
                return
        lp = refdt.first_unnatural(di, cand, py, limits) if not (py and isinstance(cand, (set, frozenset))) else (di['type'], 'set')
        prevrel = ''
        if prev_w is not None and isinstance(cand, (list, tuple)) and isinstance(prev_w, list):
            prevrel = 'prev-shorter' if len(prev_w) < len(cand) else 'prev-longer' if len(prev_w) > len(cand) else 'prev-equal'
        elif prev_w is not None:
            prevrel = 'prev'
        if py:
            exp = refdt.classify_py(di, cand, limits, stored=(path == 'drv-call'))
        else:
            exp = refdt.classify_wire(di, cand)
        # ---- execute the code under test
        try:
            if path == 'wire':
                res = dt.validate(dt.import_value(real), previous=prev)
            elif path == 'drv-validate':
                offered = real
                if zlib.crc32(repr(cand).encode('utf-8', 'replace')) % 3 == 0:
                    # the usual driver flow: the value was first converted (datatype(value): conversion only, limits
                    # are not checked there) and the converted object is validated afterwards
                    try:
                        offered = dt(real)
                        r.count('drv_validate_after_conversion')
                        # the conversion may move the value (a scaled value is rounded to its grid): the verdict on the
                        # converted value is the one that counts; where the two differ nothing is demanded
                        try:
                            if refdt.is_number(cand) and refdt.is_number(B.plain(offered)) and \
                                    refdt.classify_py(di, B.plain(offered), limits, stored=False) != exp:
                                exp = 'either'
                                r.count('drv_conversion_changed_the_class')
                        except Exception:
                            exp = 'either'
                    except Exception:
                        offered = real
                res = dt.validate(offered, previous=prev)
            else:
                res = dt(real)
            got = 'ok'
        except self.Bad:
            got = 'bad'
        except Exception as e:
            got = 'exc:' + type(e).__name__
        r.count('wire_cases' if path == 'wire' else 'drv_cases')
        nontrivial = lp is not None or prevrel in ('prev-shorter', 'prev-longer')
        r.case((path, gen_dt.tree_shape(di), lp, prevrel, got, exp), nontrivial)
        if r.want_sample() and nontrivial:
            r.sample({'path': path, 'datainfo': gen_dt.public(di), 'candidate': rec.jsonable(cand), 'previous': prev_w,
                      'expected': exp, 'outcome': got})
        # ---- oracle
        if got.startswith('exc'):
            r.count('oracle_total_fail')
            self.viol('other-exception', path, di, cand, lp, got[4:], case)
            return
        r.count('oracle_total')
        if got == 'bad':
            # C01 does not demand acceptance; a plainly valid value that is rejected is reported under
            # idempotence of the canonical form only (see C02 for valid values)
            if exp == 'accept':
                r.count('oracle_accept')
                self.viol('valid-value-rejected', path, di, cand, lp, prevrel if prevrel not in ('', 'prev', 'prev-equal') else '', case)
            return
        if exp == 'reject':
            r.count('oracle_reject')
            try:
                shown = B.plain(dt.export_value(res))
            except Exception:
                shown = repr(res)
            case['result'] = rec.jsonable(shown)
            where = refdt.first_reject(di, cand, py, limits, stored=(path == 'drv-call'))
            self.viol('accepted-must-reject', path, di, cand, where, '', case)
            return
        r.count('oracle_reject')   # clause evaluated (candidate was not in the must-reject class or was rejected)
        # sound: exported result is a member
        try:
            e = jdump(dt.export_value(res))
        except Exception as ex:
            r.count('oracle_sound')
            case['result'] = repr(res)[:300]
            where = refdt.first_nonmember(di, refdt.to_wire_lenient(di, B.plain(res)), limits)
            extra = 'export-raises-' + type(ex).__name__
            if unmerged_although_partner(di, B.plain(res), prev_w):
                # another mechanism than the listed one (no element to merge with): the element it replaces was ignored
                extra += '+previous-element-ignored'
            self.viol('out-of-set', path, di, cand, where or lp, extra, case)
            return
        case['result'] = e
        r.count('oracle_sound')
        where = refdt.first_nonmember(di, e, limits)
        if where:
            self.viol('out-of-set', path, di, cand, where, '', case)
            return
        # canonical: denotes the same value
        r.count('oracle_same')
        prev_e = prev_w
        if py:
            same = refdt.same_py(di, list(cand) if isinstance(cand, tuple) else cand, e, limits, prev_e)
        else:
            same = refdt.same_wire(di, cand, e, prev_e)
        if not same:
            where = refdt.first_not_same(di, list(cand) if isinstance(cand, tuple) else cand, e, py, limits, prev_e)
            self.viol('not-same', path, di, cand, where or lp, '', case)
            return
        # idempotent
        r.count('oracle_idempotent')
        try:
            res2 = dt.validate(res) if limits else dt(res)
            if res2 != res or type(res2) is not type(res):
                case['second'] = repr(res2)[:300]
                self.viol('not-idempotent', path, di, cand, lp, '', case)
        except Exception as ex:
            self.viol('not-idempotent', path, di, cand, lp, type(ex).__name__, case)


def _has_marker(c):
    if isinstance(c, dict):
        return '__foreign_enum__' in c or any(_has_marker(v) for v in c.values())
    if isinstance(c, (list, tuple)):
        return any(_has_marker(v) for v in c)
    return False


def model_view(c):
    if not _has_marker(c):
        return c
    if isinstance(c, dict):
        if '__foreign_enum__' in c:
            return c['__foreign_enum__'][0]
        return {k: model_view(v) for k, v in c.items()}
    return type(c)(model_view(v) for v in c)


def materialise(c):
    if not _has_marker(c):
        return c
    if isinstance(c, dict):
        if '__foreign_enum__' in c:
            from frappy.lib.enum import Enum
            code, label = c['__foreign_enum__']
            members = {label: code}
            members.setdefault('pad', code + 1000)
            return Enum('e', members)[code]       # the generated enum types are all named 'e' (dict form: labels may be 'self', 'name', ...)
        return {k: materialise(v) for k, v in c.items()}
    return type(c)(materialise(v) for v in c)


def unmerged_although_partner(di, val, prev):
    """val (plain result) holds a struct lacking a member that the struct at the same position of the previous value has"""
    t = di['type']
    if t == 'struct' and isinstance(val, dict):
        if isinstance(prev, dict) and any(k not in val and k in prev for k in di['members']):
            return True
        # (below a struct nothing is merged: the members of a struct are validated without their previous value - that is
        # the listed finding; the previous value is handed on through arrays and tuples only)
        return any(unmerged_although_partner(m, val[k], None) for k, m in di['members'].items() if k in val)
    if t == 'array' and isinstance(val, (list, tuple)):
        return any(unmerged_although_partner(di['members'], v, prev[i] if isinstance(prev, (list, tuple)) and i < len(prev) else None) for i, v in enumerate(val))
    if t == 'tuple' and isinstance(val, (list, tuple)):
        return any(unmerged_although_partner(m, v, prev[i] if isinstance(prev, (list, tuple)) and i < len(prev) else None)
                   for i, (m, v) in enumerate(zip(di['members'], val)))
    return False


def gen_cases(rng, n):
    """yields (spec, candidate, previous wire value or None, path)"""
    made = 0
    while made < n:
        di = gen_dt.gen_tree(rng, rng.choice([0, 0, 1, 2, 3]))
        container = di['type'] in ('array', 'tuple', 'struct')
        for _ in range(8):
            v = gen_dt.gen_valid(di, rng)
            prev = None
            if container and rng.random() < 0.7 or rng.random() < 0.2:
                prev = gen_dt.complete(di, gen_dt.gen_valid(di, rng, True), rng)
            q = rng.random()
            if q < 0.55:
                c = v if rng.random() < 0.2 else gen_dt.mutate(di, v, rng)
                try:
                    c = json.loads(json.dumps(c))
                except Exception:
                    continue
                if di['type'] == 'struct' and prev is None:
                    prev = gen_dt.complete(di, gen_dt.gen_valid(di, rng, True), rng)   # the dispatcher always has one
                yield di, c, prev, 'wire'
            elif q < 0.8:
                vv = gen_dt.to_py(di, gen_dt.complete(di, v, rng)) if rng.random() < 0.25 else gen_dt.mutate_py(di, v, rng)
                yield di, vv, None, 'drv-call'
            else:
                if rng.random() < 0.25:
                    vv = gen_dt.to_py(di, v)
                else:
                    vv = gen_dt.mutate_py(di, v, rng)
                if di['type'] == 'struct' and prev is None:
                    prev = gen_dt.complete(di, gen_dt.gen_valid(di, rng, True), rng)
                yield di, vv, prev, 'drv-validate'
            made += 1


def run_shard(shard):
    r = rec.Recorder(shard)
    rng = random.Random(f'C01/{shard["seed"]}/{shard["idx"]}')
    mon = Monitor(r)
    for di, c, prev, path in gen_cases(rng, shard['n']):
        mon.run_case(di, c, prev, path)
    return r.result()


def replay(case):
    r = rec.Recorder()
    mon = Monitor(r)
    cand = case['cand']
    if case['path'] != 'wire':
        cand = revive(cand)
    mon.run_case(case['spec'], cand, case.get('prev'), case['path'])
    return r.result()


def revive(c):
    """undo rec.jsonable for python-side candidates (bytes)"""
    if isinstance(c, dict) and set(c) == {'bytes'}:
        return bytes.fromhex(c['bytes'])
    if isinstance(c, dict):
        return {k: revive(v) for k, v in c.items()}
    if isinstance(c, list):
        return tuple(revive(v) for v in c)
    if c in ('nan', 'inf', '-inf'):
        return float(c)
    return c
