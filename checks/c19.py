"""C19 - discovery responder: bounded well-formed answers, unkillable by datagrams"""
import json
import random
import socket
import threading
import time

from vlib import rec

ID = 'C19'
LEVEL = 'exploration'
RULE = ('(a) identities: equipment ids / descriptions from alphabets (ASCII, 2/3/4-byte UTF-8, characters needing JSON '
        'escapes, control characters) with lengths placed around the 508 byte budget x interface lists; every message '
        'the builder returns is judged. (b) datagram sequences against a responder running in a thread on a private UDP '
        'port: valid requests, other JSON kinds, objects with other SECoP values, invalid UTF-8, empty, oversized; after '
        'every datagram a probe from a second socket decides "answered / not answered / dead" without waiting. '
        'distinct = (identity class, outcome) or (datagram class, expected answer); non-trivial = identity within 40 '
        'bytes of a budget edge or needing escapes / multi-byte, datagram that is not a plain valid request')
ASSUMPTIONS = ['loopback UDP delivers datagrams of one sender in order (probe-after-datagram decides "not answered")',
               'UDP_PORT is rebound per process to a free port; startup_broadcast=False',
               'a wall-clock limit of 2 s for the probe answer; its expiry with a live thread is inconclusive']
REQUIRED = ['identities', 'messages_checked', 'truncated_identities', 'disabled_identities', 'datagrams', 'probe_answers',
            'non_requests_sent', 'requests_sent', 'quiet_periods']

N_ID = {'quick': 700, 'thorough': 40000}
N_DG = {'quick': 250, 'thorough': 6000}
MAXLEN = 508


def plan(tier, seed, scale=1.0):
    gaps = [0.5, 1.0, 2.0, 3.5, 5.0] if tier == 'quick' else [0.5, 2.0, 3.5, 6.0, 11.0, 16.0, 31.0, 61.0]
    return [{'idx': i, 'n_id': int(N_ID[tier] * scale), 'n_dg': int(N_DG[tier] * scale), 'quiet_gap': gaps[i % len(gaps)]} for i in range(16)]


ALPHA = {'ascii': 'abcXYZ 019_-.', 'esc': '"\\\n\t/\x01\x1f"', 'u2': 'äöüéß', 'u3': '€→√あ', 'u4': '𝄞😀𐍈', 'mixed': 'aä€𝄞"\\\n z'}


def gen_text(rng, nbytes, kind):
    """text of about nbytes utf-8 bytes"""
    out = []
    size = 0
    alpha = ALPHA[kind]
    while size < nbytes:
        c = rng.choice(alpha)
        out.append(c)
        size += len(c.encode('utf-8'))
    return ''.join(out)


class World:
    def __init__(self, r):
        import frappy.protocol.discovery as disc
        from vlib import env
        env.fix_version()
        self.disc = disc
        # a TCP socket held for the life time of the shard reserves a port number that no parallel shard can
        # get (the responder binds its UDP port with SO_REUSEPORT: two shards on one port would share datagrams)
        self._reservation = socket.socket(socket.AF_INET, socket.SOCK_STREAM)
        self._reservation.bind(('127.0.0.1', 0))
        disc.UDP_PORT = self.port = self._reservation.getsockname()[1]
        self.r = r
        self.log = env.Log('discovery')
        self.log.warn = self.log.warning

    # ------------------------------------------------------------ (a) message builder
    def check_identity(self, eid, desc, ifaces, klass):
        r = self.r
        r.count('identities')
        case = {'sub': 'identity', 'equipment_id': eid, 'description': desc, 'ifaces': ifaces}
        try:
            lst = self.disc.UDPListener(eid, desc, ifaces, self.log, startup_broadcast=False)
        except Exception as e:
            r.violation('C19/message/constructor-raises', f'{type(e).__name__}: {e}'[:200], case)
            return
        try:
            ports = [int(i.split('://')[1]) for i in ifaces if i.startswith('tcp')]
            base = json.dumps({'SECoP': 'node', 'port': 65535, 'equipment_id': eid, 'firmware': lst.firmware, 'description': ''},
                              ensure_ascii=False, separators=(',', ':')).encode('utf-8')
            fits_alone = len(base) <= MAXLEN
            full = json.dumps({'SECoP': 'node', 'port': 65535, 'equipment_id': eid, 'firmware': lst.firmware, 'description': desc},
                              ensure_ascii=False, separators=(',', ':')).encode('utf-8')
            near = min(abs(len(base) - MAXLEN), abs(len(full) - MAXLEN)) <= 40
            outcome = 'disabled' if not lst.is_enabled else 'truncated' if lst.description != desc else 'full'
            r.case((klass, outcome, near), near or klass not in ('ascii',))
            if r.want_sample() and near:
                r.sample({'equipment_id_bytes': len(eid.encode()), 'description_bytes': len(desc.encode()), 'class': klass,
                          'identity_alone_bytes': len(base), 'outcome': outcome})
            if not lst.is_enabled:
                r.count('disabled_identities')
                if fits_alone:
                    r.violation('C19/message/disabled-although-identity-fits',
                                f'identity alone needs {len(base)} bytes but the responder is disabled', case)
                return
            if not fits_alone:
                r.violation('C19/message/enabled-although-identity-too-long', f'identity alone needs {len(base)} bytes', case)
                return
            if outcome == 'truncated':
                r.count('truncated_identities')
                if len(full) <= MAXLEN:
                    r.violation('C19/message/truncated-without-need', f'full message has {len(full)} bytes', case)
                if not desc.startswith(lst.description):
                    r.violation('C19/message/truncation-not-a-prefix', 'truncated description is not a prefix of the original', case)
            elif len(full) > MAXLEN:
                r.violation('C19/message/too-long', f'message has {len(full)} bytes', case)
            for port in ports or [1]:
                r.count('messages_checked')
                msg = lst._getMessage(port)
                if len(msg) > MAXLEN:
                    r.violation('C19/message/too-long', f'message has {len(msg)} bytes', case)
                    break
                try:
                    doc = json.loads(msg.decode('utf-8'))
                except Exception as e:
                    r.violation('C19/message/not-utf8-json', f'{type(e).__name__}', case)
                    break
                if not (isinstance(doc, dict) and doc.get('SECoP') == 'node' and doc.get('equipment_id') == eid
                        and doc.get('port') == port and isinstance(doc.get('firmware'), str)
                        and isinstance(doc.get('description'), str) and desc.startswith(doc['description'])):
                    r.violation('C19/message/wrong-content', 'identity / port / description not as configured', dict(case, message=doc))
                    break
                try:
                    doc['description'].encode('utf-8')
                except UnicodeEncodeError:
                    r.violation('C19/message/truncated-inside-character', 'description ends in half a character', case)
                    break
        finally:
            lst.sock.close()

    def run_identities(self, rng, n):
        for _ in range(n):
            klass_id = rng.choice(['ascii', 'ascii', 'u2', 'mixed', 'esc'])
            klass_d = rng.choice(list(ALPHA))
            firmware_overhead = 80
            q = rng.random()
            if q < 0.25:
                idlen = rng.randint(1, 40)
            elif q < 0.6:
                idlen = rng.randint(300, 460)
            else:
                idlen = rng.randint(380, 440)        # around the identity-alone limit
            eid = gen_text(rng, idlen, klass_id)
            room = MAXLEN - firmware_overhead - len(eid.encode('utf-8'))
            dlen = max(0, rng.choice([0, rng.randint(0, 30), room + rng.randint(-40, 40), room + rng.randint(-5, 5), rng.randint(0, 1200)]))
            desc = gen_text(rng, dlen, klass_d) if dlen else rng.choice(['', None]) or ''
            ifaces = rng.choice([['tcp://10767'], ['tcp://1', 'ws://8080', 'tcp://65535'], ['ws://80'], ['tcp://10767', 'tcp://10768']])
            self.check_identity(eid, desc, ifaces, f'{klass_id}/{klass_d}')

    # ------------------------------------------------------------ (b) responder
    def gen_datagram(self, rng):
        """-> (class, bytes, is_request)"""
        q = rng.random()
        if q < 0.04:
            # a valid request that fills the datagram up to the responder's receive size (1024 bytes)
            n = rng.choice([509, 600, 800, 1000, 1023, 1024, rng.randint(509, 1024)])
            head, tail = b'{"SECoP": "discover", "pad": "', b'"}'
            return 'request', head + b'x' * (n - len(head) - len(tail)) + tail, True
        if q < 0.25:
            v = rng.choice([b'{"SECoP": "discover"}', b'{"SECoP":"discover"}', b' {"SECoP": "discover", "x": [1, 2]} ',
                            b'{"a": null, "SECoP": "discover"}', '{"SECoP": "discover", "ä": "€"}'.encode(),
                            # the same JSON document in other spellings
                            b'{"SECoP":"disc\\u006fver"}', b'{"\\u0053ECoP": "\\u0064iscover"}', b'{\n"SECoP"\t:\r\n"discover"\n}',
                            b'{"SECoP": "discover", "SECoP": "discover"}', b'{"x": {"SECoP": "node"}, "SECoP": "discover"}'])
            return 'request', v, True
        if q < 0.4:
            v = rng.choice([b'{"SECoP": "node"}', b'{"SECoP": 1}', b'{"secop": "discover"}', b'{}', b'{"SECoP": null}',
                            b'{"SECoP": ["discover"]}', b'{"SECoP": "Discover"}', b'{"x": "SECoP"}', b'{"SECoP": {"SECoP": "discover"}}'])
            return 'other-object', v, False
        if q < 0.6:
            v = rng.choice([b'5', b'1.5', b'"SECoP"', b'"discover"', b'null', b'true', b'[1,2]', b'["SECoP"]', b'["SECoP", "discover"]',
                            b'[{"SECoP": "discover"}]', b'0', b'""', b'[]'])
            return 'json-non-object', v, False
        if q < 0.66:
            v = rng.choice([b'\xff\xfe', b'{"SECoP": "disc\xff"}', b'\x80', b'\xc3', b'{"SECoP": "discover"}\xe4'])
            return 'invalid-utf8', v, False
        if q < 0.72:
            # the request text in another encoding is not a SECoP discovery request (JSON in UTF-8, no byte order mark)
            req = '{"SECoP": "discover"}'
            v = rng.choice([req.encode('utf-16'), req.encode('utf-16-le'), req.encode('utf-16-be'), req.encode('utf-32'),
                            req.encode('utf-32-le'), req.encode('utf-32-be'), b'\xef\xbb\xbf' + req.encode(),
                            b'{"SECoP": "discover", "x": "\xed\xa0\x80"}'])
            return 'other-encoding', v, False
        if q < 0.8:
            return 'empty', b'', False
        if q < 0.9:
            v = rng.choice([b'{"SECoP": "discover"', b'{SECoP: discover}', b'discover', b'*IDN?\n', b'{"SECoP": "discover"}}', b'NaN', b'\x00'])
            return 'broken-json', v, False
        if q < 0.93:
            # oversized and deeply nested: whatever part of it the responder reads, it is not a request (and no parser
            # failure - a recursion limit included - may end the responder)
            v = rng.choice([b'[' * 3000, b'{"a":' * 2500, b'[' * 1500 + b']' * 1500, b'{"SECoP": "discover", "x": ' + b'[' * 4000,
                            b'[' * 20000, b'{"SECoP":' * 3000 + b'"discover"' + b'}' * 3000])
            return 'oversized-nested', v, False
        if q < 0.95:
            return 'oversized-garbage', bytes(rng.randrange(32, 127) for _ in range(rng.randint(1025, 3000))), False
        return 'oversized-request', b'{"SECoP": "discover", "pad": "' + b'x' * rng.randint(1100, 2000) + b'"}', None   # truncated by recv: either way

    quiet_gap = 0

    def run_responder(self, rng, n, nseq=8):
        r = self.r
        for s in range(nseq):
            ports = rng.choice([[10767], [1, 65535], [10767, 10768, 10769]])
            ifaces = [f'tcp://{p}' for p in ports] + (['ws://8080'] if rng.random() < 0.5 else [])
            lst = self.disc.UDPListener('eq.verif', 'responder under test', ifaces, self.log, startup_broadcast=False)
            escaped = []
            th = threading.Thread(target=self._run, args=(lst, escaped), daemon=True)
            th.start()
            a = socket.socket(socket.AF_INET, socket.SOCK_DGRAM)
            b = socket.socket(socket.AF_INET, socket.SOCK_DGRAM)
            a.bind(('127.0.0.1', 0))
            b.bind(('127.0.0.1', 0))
            b.settimeout(2.0)
            a.setblocking(False)
            history = []
            try:
                gap_at = (n // nseq) // 2 if s == 0 and self.quiet_gap else -1
                for i in range(n // nseq + 1):
                    if i == gap_at:
                        # keeps answering after a quiet period (real time: no datagram at all for some seconds)
                        time.sleep(self.quiet_gap)
                        history.append(['quiet-period', f'{self.quiet_gap} s'])
                        r.count('quiet_periods')
                    klass, dg, isreq = self.gen_datagram(rng)
                    if i == gap_at:
                        klass, dg, isreq = 'request', b'{"SECoP": "discover"}', True
                    history.append([klass, dg[:60].decode('latin1')])
                    r.count('datagrams')
                    r.count('requests_sent' if isreq else 'non_requests_sent')
                    a.sendto(dg, ('127.0.0.1', self.port))
                    # probe from the second socket: when its answers are here, the datagram above has been handled
                    b.sendto(b'{"SECoP": "discover"}', ('127.0.0.1', self.port))
                    got_b = 0
                    dead = False
                    try:
                        b.recvfrom(2048)
                        got_b = 1
                        b.settimeout(0.05)      # the answers for all ports are sent back to back
                        while got_b < len(ports):
                            b.recvfrom(2048)
                            got_b += 1
                    except socket.timeout:
                        dead = got_b == 0
                    b.settimeout(2.0)
                    if got_b and got_b != len(ports):
                        r.violation('C19/responder/request-not-answered-per-port', f'{got_b} answers for {len(ports)} TCP ports',
                                    {'sub': 'responder', 'history': history[-6:], 'ifaces': ifaces})
                        break
                    case = {'sub': 'responder', 'history': history[-6:], 'ifaces': ifaces}
                    if dead:
                        if not th.is_alive() or escaped:
                            if len(history) > 1 and history[-2][0] == 'quiet-period':
                                klass = 'quiet-period'
                            r.violation(f'C19/responder/killed-by/{klass}', f'after a {klass} datagram the responder thread is dead '
                                        f'({escaped[0] if escaped else "returned"}) and later requests stay unanswered', case)
                        else:
                            r.inconclusive.append('probe not answered within 2 s although the responder thread is alive')
                        break
                    r.count('probe_answers')
                    answers = []
                    try:
                        while True:
                            answers.append(a.recvfrom(2048)[0])
                    except (BlockingIOError, InterruptedError):
                        pass
                    r.case((klass, len(answers)), klass != 'request')
                    if isreq is True and len(answers) != len(ports):
                        r.violation('C19/responder/request-not-answered-per-port', f'{len(answers)} answers for {len(ports)} TCP ports', case)
                    if isreq is False and answers:
                        r.violation(f'C19/responder/answered-non-request/{klass}', f'{len(answers)} answers to a {klass} datagram', case)
                    for msg in answers:
                        try:
                            doc = json.loads(msg.decode('utf-8'))
                            assert doc['SECoP'] == 'node' and doc['port'] in ports and len(msg) <= MAXLEN
                        except Exception:
                            r.violation('C19/responder/malformed-answer', repr(msg[:80]), case)
                # whether a request is answered depends on the datagram, not on who sent it: a client that sends from the
                # discovery port itself (it listens there for announcements: SO_REUSEPORT on another local address)
                if th.is_alive():
                    c = socket.socket(socket.AF_INET, socket.SOCK_DGRAM)
                    try:
                        c.setsockopt(socket.SOL_SOCKET, socket.SO_REUSEPORT, 1)
                        c.bind(('127.0.0.2', self.port))
                    except OSError:
                        r.count('discovery_port_sender_unavailable')
                        c.close()
                        c = None
                    if c is not None:
                        try:
                            c.settimeout(2.0)
                            c.sendto(b'{"SECoP": "discover"}', ('127.0.0.1', self.port))
                            got = 0
                            try:
                                while got < len(ports):
                                    c.recvfrom(2048)
                                    got += 1
                                    c.settimeout(0.2)
                            except socket.timeout:
                                pass
                            r.count('requests_from_the_discovery_port')
                            if got != len(ports):
                                r.violation('C19/responder/request-not-answered/sent-from-the-discovery-port', f'{got} answers for {len(ports)} TCP ports to a request '
                                            f'sent from 127.0.0.2:{self.port}', {'sub': 'responder', 'history': history[-3:], 'ifaces': ifaces})
                        finally:
                            c.close()
                if r.want_sample():
                    r.sample({'datagram_sequence': history[:8], 'tcp_ports': ports})
            finally:
                lst.shutdown()
                a.close()
                b.close()
                th.join(2)

    @staticmethod
    def _run(lst, escaped):
        try:
            lst.run()
        except BaseException as e:   # an exception escaping the responder thread is an observed event
            escaped.append(f'{type(e).__name__}: {e}'[:120])

    # ------------------------------------------------------------ shut down while starting up
    def run_early_shutdown(self, rng, n):
        """shutdown() is called by another thread while the responder thread is still in its first lines (a termination
        request right after the start): whatever the interleaving, after shutdown() has returned the thread ends"""
        from vlib import lineinject
        r = self.r
        inj = lineinject.LineInjector(self.disc.UDPListener.run, name='c19-early-shutdown')
        try:
            for i in range(n):
                k = 1 + i % 4
                lst = self.disc.UDPListener('eq.verif', 'responder under test', ['tcp://10767'], self.log, startup_broadcast=False)
                escaped = []
                state = {}

                def body(lst=lst, k=k):
                    inj.arm(k, lst.shutdown)
                    try:
                        self._run(lst, escaped)
                    finally:
                        state['injected'] = inj.disarm()
                th = threading.Thread(target=body, daemon=True)
                th.start()
                time.sleep(0.05)
                if th.is_alive() and not state.get('injected') and inj.thread is None:
                    lst.shutdown()      # the line was never reached (k beyond the start-up lines): an ordinary shutdown
                th.join(2)
                r.count('shutdowns_during_start_up')
                case = {'sub': 'early-shutdown', 'before_line': k}
                if th.is_alive():
                    lst.shutdown()
                    r.violation('C19/responder/thread-alive-after-shutdown/shutdown-during-start-up',
                                f'shutdown() called by a second thread before line {k} of UDPListener.run: the responder thread is still alive 2 s later', case)
                    return
                if escaped:
                    r.violation('C19/responder/exception-escapes/shutdown-during-start-up', escaped[0], case)
                    return
        finally:
            inj.close()

    # ------------------------------------------------------------ announced port really listens
    def run_tcp(self):
        r = self.r
        from vlib import nodes
        from frappy.protocol.interface.tcp import TCPServer
        from frappy.modules import Readable
        s = socket.socket()
        s.bind(('127.0.0.1', 0))
        port = s.getsockname()[1]
        s.close()
        node = nodes.Node({'m': {'cls': Readable, 'description': 'x'}}).build()
        uri = f'tcp://{port}'
        srv = TCPServer('tcp', node.log.getChild('tcp'), {'uri': uri}, node)
        t = threading.Thread(target=srv.serve_forever, daemon=True)
        t.start()
        lst = self.disc.UDPListener(node.secnode.equipment_id, 'd', [uri], self.log, startup_broadcast=False)
        th = threading.Thread(target=lst.run, daemon=True)
        th.start()
        a = socket.socket(socket.AF_INET, socket.SOCK_DGRAM)
        a.settimeout(2)
        try:
            a.sendto(b'{"SECoP": "discover"}', ('127.0.0.1', self.port))
            doc = json.loads(a.recvfrom(2048)[0].decode())
            c = socket.create_connection(('127.0.0.1', doc['port']), timeout=2)
            c.sendall(b'*IDN?\n')
            reply = c.recv(200)
            c.close()
            r.count('tcp_port_checked')
            if not reply.startswith(b'ISSE'):
                r.violation('C19/announced-port-not-secop', repr(reply[:60]), {'sub': 'tcp'})
        except socket.timeout:
            r.inconclusive.append('tcp/udp end-to-end probe timed out')
        except OSError as e:
            r.violation('C19/announced-port-not-listening', str(e), {'sub': 'tcp'})
        finally:
            lst.shutdown()
            srv.shutdown()
            srv.server_close()
            a.close()


def is_secop_port(port):
    try:
        c = socket.create_connection(('127.0.0.1', port), timeout=2)
    except OSError:
        return False
    try:
        c.sendall(b'*IDN?\n')
        return c.recv(200).startswith(b'ISSE')
    except OSError:
        return False
    finally:
        c.close()


def run_server_restart(w, r, rng, bare=False):
    """the real frappy.server.Server with a main and a secondary tcp interface and its own discovery responder: after a
    restart in which the secondary interface can not be bound again (somebody else took the port), every answer to a
    discovery request still carries a port the node really listens on"""
    import tempfile
    import shutil
    from pathlib import Path
    import frappy.lib
    from frappy.server import Server
    tmp = Path(tempfile.mkdtemp(prefix='c19srv-'))
    socks = [socket.socket() for _ in range(2)]
    for s_ in socks:
        s_.bind(('127.0.0.1', 0))
    port1, port2 = [s_.getsockname()[1] for s_ in socks]
    for s_ in socks:
        s_.close()
    # the main interface may be spelled as a bare port number (as after 'frappy-server -p <port>')
    spelled = str(port1) if bare else f'tcp://{port1}'
    (tmp / 'c19node_cfg.py').write_text(f"Node('c19.restart', 'restarting node', '{spelled}', secondary=['tcp://{port2}'])\n"
                                        "Mod('foo', 'frappy.modules.Readable', 'a readable', value=5)\n")
    gc = frappy.lib.generalConfig
    saved = gc._config
    gc.testinit(confdir=[tmp], piddir=tmp, logdir=tmp)
    blockers = []

    class Srv(Server):
        def restart_hook(self):
            # somebody else grabs the secondary port before the node binds it again
            b_ = socket.socket()
            b_.setsockopt(socket.SOL_SOCKET, socket.SO_REUSEADDR, 1)
            try:
                b_.bind(('', port2))
                b_.listen(1)
                blockers.append(b_)
            except OSError:
                b_.close()

    def ask():
        a = socket.socket(socket.AF_INET, socket.SOCK_DGRAM)
        a.settimeout(1.0)
        ports = []
        try:
            a.sendto(b'{"SECoP": "discover"}', ('127.0.0.1', w.port))
            while True:
                doc = json.loads(a.recvfrom(2048)[0].decode('utf-8'))
                ports.append(doc.get('port'))
                a.settimeout(0.3)
        except (socket.timeout, OSError, ValueError):
            pass
        finally:
            a.close()
        return ports

    def wait_for(cond, timeout):
        end = time.time() + timeout
        while time.time() < end:
            if cond():
                return True
            time.sleep(0.1)
        return False
    import logging
    import sys as _sys
    log = logging.getLogger('c19srv')
    log.setLevel(logging.CRITICAL)
    srv = Srv('c19node', log)
    # the interface threads are slow starters: a pause before every line of Server._interfaceThread (the main thread gets the
    # chance to run wherever an interface thread can be descheduled during the start-up hand-shake)
    mon_ = _sys.monitoring
    slow_tool = 2
    slowed = {'n': 0}
    code_ = Server._interfaceThread.__code__

    def slow_line(code, line):
        slowed['n'] += 1
        time.sleep(0.03)
    mon_.use_tool_id(slow_tool, 'c19-slow-interface-threads')
    mon_.register_callback(slow_tool, mon_.events.LINE, slow_line)
    mon_.set_local_events(slow_tool, code_, mon_.events.LINE)
    th = threading.Thread(target=srv.run, daemon=True)
    th.start()
    case = {'sub': 'server-restart', 'ports': [port1, port2], 'main_interface_spelled': spelled}
    r.count('server_runs_with_a_bare_port_interface' if spelled.isdigit() else 'server_runs_with_an_uri_interface')
    try:
        if not wait_for(lambda: getattr(srv, 'discovery', None) is not None and is_secop_port(port1) and is_secop_port(port2), 30):
            if is_secop_port(port1) and is_secop_port(port2) and getattr(srv, 'discovery', None) is None:
                r.violation('C19/server/listening-but-no-responder', f'both interfaces ({port1}, {port2}) accept connections, but the node has no discovery responder '
                            f'30 s after the start (Server.run {"has returned" if not th.is_alive() else "is still running"})', case)
                return
            r.inconclusive.append('server-restart phase: the node did not come up with both interfaces')
            return
        mon_.set_local_events(slow_tool, code_, 0)
        r.count('pauses_injected_into_the_interface_threads', slowed['n'])
        first = srv.discovery
        # while the node goes down (restart or shutdown): as soon as an interface has stopped listening, nobody announces its port
        closing = []

        def probing(iface_, uri_):
            orig = iface_.shutdown

            def shutdown_and_probe():
                orig()
                p_ = int(str(uri_).rsplit(':', 1)[-1].strip('/'))
                if wait_for(lambda: not is_secop_port(p_), 3):
                    closing.append((p_, ask()))
            iface_.shutdown = shutdown_and_probe
        for uri_, iface_ in list(srv.interfaces.items()):
            probing(iface_, uri_)
        ports = ask()
        r.count('server_discovery_answers_checked', len(ports))
        bad = [p_ for p_ in ports if not is_secop_port(p_)]
        if not bad and ports and (port1 not in ports or port2 not in ports):
            r.violation('C19/server/listening-port-not-announced', f'the node listens on {port1} (interface given as {spelled!r}) and {port2}; discovery answers carry {ports}', case)
            return
        if bad or not ports:
            r.violation('C19/server/announced-port-not-listening/fresh-node', f'answers carry {ports}, not listening: {bad}', case)
            return
        srv.restart()
        for p_, answers in closing:
            r.count('discovery_probes_while_the_node_goes_down')
            if p_ in answers:
                r.violation('C19/server/announced-port-not-listening/while-going-down', f'the interface on port {p_} had stopped listening (restart in progress), a '
                            f'discovery request sent then was answered with the ports {answers}', case)
                return
        if not wait_for(lambda: srv.discovery is not first and is_secop_port(port1), 60):
            r.inconclusive.append('server-restart phase: the node did not come back after the restart')
            return
        time.sleep(0.5)
        for b_ in blockers:
            b_.close()
        r.count('server_restarts')
        if blockers and not is_secop_port(port2):
            r.count('server_restarts_with_a_lost_interface')
        seen = []
        for _ in range(6):       # (several requests: more than one responder may be bound to the port)
            seen += ask()
        r.count('server_discovery_answers_checked', len(seen))
        bad = sorted({p_ for p_ in seen if not is_secop_port(p_)})
        if bad:
            r.violation('C19/server/announced-port-not-listening/after-restart', f'after the restart (secondary interface on port {port2} could not be bound again) '
                        f'discovery requests are answered with the ports {sorted(set(seen))}; not listening: {bad}', case)
        elif not seen:
            r.violation('C19/server/no-answer-after-restart', 'no answer to discovery requests after the restart', case)
    finally:
        try:
            mon_.set_local_events(slow_tool, code_, 0)
            mon_.register_callback(slow_tool, mon_.events.LINE, None)
            mon_.free_tool_id(slow_tool)
        except Exception:
            pass
        try:
            srv.shutdown()
        except Exception:
            pass
        th.join(15)
        for b_ in blockers:
            b_.close()
        gc._config = saved
        shutil.rmtree(tmp, ignore_errors=True)


def run_shard(shard):
    r = rec.Recorder(shard)
    rng = random.Random(f'C19/{shard["seed"]}/{shard["idx"]}')
    w = World(r)
    w.quiet_gap = shard.get('quiet_gap', 0)
    w.run_identities(rng, shard['n_id'])
    w.run_responder(rng, shard['n_dg'])
    w.run_early_shutdown(rng, 8)
    if shard['idx'] == 0:
        w.run_tcp()
    if shard['idx'] in (1, 2):
        for attempt in (1, 2):
            n0 = len(r.inconclusive)
            run_server_restart(w, r, rng, bare=shard['idx'] == 2)
            if attempt == 1 and len(r.inconclusive) > n0 and 'did not come' in r.inconclusive[-1]:
                # (a free port may be taken by somebody else between picking it and the node binding it: once more, other ports)
                del r.inconclusive[n0:]
                r.count('server_phase_repeated')
                continue
            break
    return r.result()


def replay(case):
    r = rec.Recorder()
    w = World(r)
    if case.get('sub') == 'identity':
        w.check_identity(case['equipment_id'], case['description'], case['ifaces'], 'replay')
    else:
        w.run_responder(random.Random(0), 400)
    return r.result()
