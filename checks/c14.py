"""C14 - state machine: bounded cycles, exactly-once cleanup, last start wins

monitor: spec-level trace invariants over the recorded trace of the real StateMachine (and of a
HasStates module), for all operation sequences up to a depth bound + random deep sequences."""
import itertools
import random

from vlib import rec

ID = 'C14'
LEVEL = 'exploration'
RULE = ('programs of state functions over the behaviour alphabet {next, retry, finish, non-callable, None, raise} with '
        'cleanup functions {None, sequence, raise, non-callable}; ALL sequences over {cycle, stop, start(A|B, with/'
        'without cleanup)} up to the depth bound (exhaustive per program) followed by settling cycles, plus random '
        'deep sequences; threaded part: for every program and every base sequence (depth <= 3 quick / 4 thorough) ending in a '
        'cycle, a start/stop from a second thread before every line of that cycle (single injection, systematic, '
        'time-boxed) plus random deep sequences with 1..3 injections; module level: HasStates+Drivable driven by doPoll. distinct = (program, operation sequence); '
        'non-trivial = sequence contains an interruption (stop/start while a run is active)')
ASSUMPTIONS = ['runs are identified by a unique attribute passed to start()',
               'cleanup-sequence states of the generated programs terminate within 3 calls (else "enough cycles" is undefined)',
               'threaded part: "between any two steps of a cycle" = before any line executed inside StateMachine.cycle / '
               '_cleanup / _new_state (sys.monitoring LINE events); the operation is issued by a real second thread which '
               'is joined before the cycle continues; while the cycling thread holds the machine lock the injection is '
               'deferred to the next line (a second thread would wait there)']
REQUIRED = ['sequences', 'inv_bounded', 'inv_init', 'inv_cleanup_once', 'inv_sequence_uninterrupted', 'inv_last_wins',
            'module_sequences', 'inv_module_status', 'threaded_single_injection_runs', 'injections_between_lines']

DEPTH = {'quick': 5, 'thorough': 7}
NPROG = {'quick': 24, 'thorough': 48}
NRANDOM = {'quick': 1500, 'thorough': 40000}
NMODULE = {'quick': 3200, 'thorough': 40000}
SETTLE = 8

BASE_PROGS = [
    ({'A': ['retry'], 'B': ['retry']}, {'c': 'none'}),
    ({'A': [('next', 'B')], 'B': ['retry', 'finish']}, {'c': 'none'}),
    ({'A': ['retry', 'raise'], 'B': ['retry']}, {'c': ('seq', 'X'), 'd': 'raise'}),
    ({'A': ['retry', 'bad'], 'B': [('next', 'A')]}, {'c': ('seq', 'B2')}),
    ({'A': [('next', 'A')], 'B': ['retry']}, {'c': 'none'}),
    ({'A': ['retry'], 'B': ['retry'], 'X': ['retry', 'retry', 'finish']}, {'c': ('seq', 'X')}),
    ({'A': ['retry'], 'B': ['retry'], 'X': ['retry', 'raise']}, {'c': ('seq', 'X')}),
    ({'A': ['none'], 'B': ['finish']}, {'c': 'bad'}),
    ({'A': ['retry', ('next', 'B')], 'B': ['retry', ('next', 'A')]}, {'c': ('seq', 'X')}),
    ({'A': ['finish'], 'B': ['retry', 'retry', 'finish']}, {'c': ('seq', 'X')}),
    ({'A': ['retry'], 'B': ['raise']}, {'c': 'raise'}),
    ({'A': ['retry'], 'B': ['retry'], 'X': [('next', 'Y')], 'Y': ['retry', 'finish']}, {'c': ('seq', 'X')}),
]


def gen_prog(rng):
    names = ['A', 'B'] + rng.sample(['P', 'Q'], rng.choice([0, 1, 2]))
    table = {}
    for n in names:
        beh = []
        for _ in range(rng.choice([1, 2, 3])):
            q = rng.random()
            if q < 0.4:
                beh.append('retry')
            elif q < 0.6:
                beh.append(('next', rng.choice(names)))
            elif q < 0.75:
                beh.append('finish')
            elif q < 0.85:
                beh.append('raise')
            elif q < 0.93:
                beh.append('bad')
            else:
                beh.append('none')
        table[n] = beh
    seqstate = rng.choice(['X', 'X', None])
    cleanups = {'c': ('seq', 'X') if seqstate else rng.choice(['none', 'raise', 'bad', 'req-stop', 'req-start', 'finish', 'finish'])}
    if seqstate:
        table['X'] = rng.choice([['retry', 'retry', 'finish'], ['finish'], ['retry', 'raise'], [('next', 'Y')], ['retry', 'bad']])
        if table['X'] == [('next', 'Y')]:
            table['Y'] = rng.choice([['retry', 'finish'], ['finish'], ['raise']])
    return table, cleanups


def normalize(prog):
    table, cleanups = prog
    table = {k: list(v) for k, v in table.items()}
    for d in cleanups.values():
        if isinstance(d, (tuple, list)) and d[1] not in table:
            table[d[1]] = ['retry', 'finish']
    return table, dict(cleanups)


ALPHABET = [('cycle',), ('stop',)] + [('start', s, c) for s in ('A', 'B') for c in (None, 'c')]


class Boom(Exception):
    pass


class Harness:
    """runs one operation sequence on a fresh real StateMachine and records the trace"""

    def __init__(self, SM, prog):
        self.SM = SM
        self.table, self.cleanups = prog
        self.funcs = {n: self.mk(n) for n in self.table}
        self.cfuncs = {n: self.mkc(n) for n in self.cleanups}

    def mk(self, name):
        Retry, Finish = self.SM.Retry, self.SM.Finish
        beh = self.table[name]
        n = len(beh)

        def f(sm):
            i = self.counters.get(name, 0)
            self.counters[name] = i + 1
            b = beh[i % n]
            self.trace.append(('S', name, sm.init, getattr(sm, 'tag', None), b if isinstance(b, str) else 'next'))
            self.cyc_calls = getattr(self, 'cyc_calls', 0) + 1
            if self.cyc_calls > 40 * 12:
                raise Runaway()          # (the harness itself must not hang in a cycle that never ends)
            if b == 'rearm':
                # the state asks for a new run of itself and finishes (a measurement loop re-arming itself): the new run
                # begins, but one cycle stays bounded
                self.issue(('start', name, None), True)
                return Finish
            if b == 'retry':
                return Retry
            if b == 'finish':
                return Finish
            if b == 'bad':
                return 42
            if b == 'none':
                return None
            if b == 'raise':
                raise (ValueError, KeyError, ZeroDivisionError, Boom)[(i + len(name)) % 4]('boom ' + name)
            return self.funcs[b[1]]
        f.__name__ = name
        return f

    def mkc(self, name):
        beh = self.cleanups[name]

        def c(sm):
            self.trace.append(('C', name, type(sm.cleanup_reason).__name__, getattr(sm, 'tag', None),
                               beh if isinstance(beh, str) else 'seq'))
            if beh in ('req-stop', 'req-start'):
                # a request arrives WHILE the cleanup function is executing (an error handler asking for a recovery run, a stop
                # button): it is issued by a second thread and must not have to wait for the cleanup to return
                import threading
                op = ('stop',) if beh == 'req-stop' else ('start', 'B', None)
                done = threading.Event()

                def req():
                    self.issue(op, True)
                    done.set()
                threading.Thread(target=req, daemon=True).start()
                if not done.wait(1.0):
                    self.trace.append(('BLOCKED', op[0]))
                return None
            if beh == 'none':
                return None
            if beh == 'raise':
                raise KeyError('cleanup')
            if beh == 'bad':
                # something that is no state function - also values that are false in python terms
                i = self.counters.get('bad-cleanup', 0)
                self.counters['bad-cleanup'] = i + 1
                return (7, False, 0, '', (), 0.0, 'junk', [])[i % 8]
            if beh == 'finish':
                return self.SM.Finish       # what a state function may return, a cleanup function may not (a non-callable like 7)
            return self.funcs[beh[1]]
        c.__name__ = 'cleanup_' + name
        return c

    def run(self, ops):
        """ops: ('cycle',) | ('cycle', ((k, op), ...)) | ('stop',) | ('start', state, cleanup)

        a cycle with injections: op is issued from a second thread just before the k-th line executed inside
        StateMachine.cycle/_cleanup/_new_state during that cycle (see LineInjector)"""
        self.trace = tr = []
        self.counters = {}
        self.linecounts = []
        sm = self.SM.StateMachine(transition=lambda sm_, new: tr.append(('T', new.__name__ if new else None)))
        self.tagn = 0

        def issue(op, mid=False):
            if op[0] == 'start':
                self.tagn += 1
                kw = {'tag': self.tagn}
                if op[2]:
                    kw['cleanup'] = self.cfuncs[op[2]]
                tr.append(('OP', 'start', op[1], op[2], self.tagn) + (('mid',) if mid else ()))
                try:
                    sm.start(self.funcs[op[1]], **kw)
                except Exception as e:
                    tr.append(('EXC', type(e).__name__, str(e)[:100]))
            else:
                tr.append(('OP', 'stop') + (('mid',) if mid else ()))
                try:
                    sm.stop()
                except Exception as e:
                    tr.append(('EXC', type(e).__name__, str(e)[:100]))
        self.issue = issue
        for op in list(ops) + [('cycle',)] * SETTLE:
            if op[0] == 'cycle':
                tr.append(('OP', 'cycle'))
                n0 = len(tr)
                inj = LineInjector.current
                if inj is not None:
                    inj.arm(sm, issue, op[1] if len(op) > 1 else ())
                self.cyc_calls = 0
                try:
                    sm.cycle()
                    tr.append(('CYC', sum(1 for e in tr[n0:] if e[0] in 'SC')))
                except Runaway:
                    tr.append(('CYC', 10 ** 6))
                    break
                except Exception as e:
                    tr.append(('EXC', type(e).__name__, str(e)[:100]))
                if inj is not None:
                    self.linecounts.append(inj.disarm())
            else:
                issue(op)
        tr.append(('END', sm.is_active, sm.statefunc.__name__ if sm.statefunc else None, getattr(sm, 'tag', None)))
        return tr


class Runaway(BaseException):
    """raised by the harness inside a state function when one cycle has made hundreds of state calls"""


class LineInjector:
    """'a second thread issues start/stop between any two steps of a cycle'

    sys.monitoring LINE events of StateMachine.cycle / _cleanup / _new_state are the steps; before the k-th line
    executed during an armed cycle a real second thread issues the operation and is joined. While the cycling thread
    holds the machine's lock the second thread would just wait: the injection is deferred to the next line."""
    current = None
    TOOL = 4

    def __init__(self, SMclass):
        import sys
        import threading
        self.mon = sys.monitoring
        self.threading = threading
        self.codes = [SMclass.cycle.__code__, SMclass._cleanup.__code__, SMclass._new_state.__code__]
        self.sm = None
        self.count = 0
        self.todo = []
        self.injected = 0
        self.deferred = 0
        self.after = 0
        self.mon.use_tool_id(self.TOOL, 'c14-inject')
        self.mon.register_callback(self.TOOL, self.mon.events.LINE, self.on_line)
        for c in self.codes:
            self.mon.set_local_events(self.TOOL, c, self.mon.events.LINE)
        self.cycler = threading.get_ident()
        LineInjector.current = self

    def close(self):
        for c in self.codes:
            self.mon.set_local_events(self.TOOL, c, 0)
        self.mon.register_callback(self.TOOL, self.mon.events.LINE, None)
        self.mon.free_tool_id(self.TOOL)
        LineInjector.current = None

    def arm(self, sm, issue, injections):
        self.sm, self.issue, self.count = sm, issue, 0
        self.todo = sorted(injections, key=lambda x: x[0])

    def disarm(self):
        # injections whose line was never reached (or deferred past the end) are issued right after the cycle
        for _, op in self.todo:
            self.after += 1
            self.second_thread(op, False)
        self.todo = []
        self.sm = None
        return self.count

    def second_thread(self, op, mid=True):
        t = self.threading.Thread(target=self.issue, args=(op, mid))
        t.start()
        t.join(10)
        if t.is_alive():
            raise RuntimeError('second thread blocked in start/stop')

    def on_line(self, code, line):
        if self.sm is None or self.threading.get_ident() != self.cycler:
            return
        self.count += 1
        while self.todo and self.todo[0][0] <= self.count:
            if self.sm._lock.locked():
                self.deferred += 1
                return
            _, op = self.todo.pop(0)
            self.injected += 1
            self.second_thread(op)


def check_trace(tr, maxloops=10, counts=None):
    """spec-level trace invariants; returns list of (invariant, detail)"""
    v = []
    cnt = counts if counts is not None else {}

    def ev(name):
        cnt[name] = cnt.get(name, 0) + 1
    # I1 never raises; bounded
    for e in tr:
        if e[0] == 'EXC':
            v.append(('raises', e))
        elif e[0] == 'BLOCKED':
            v.append(('request-blocks-while-the-cleanup-function-runs', e))
        elif e[0] == 'CYC':
            ev('inv_bounded')
            if e[1] > 2 * maxloops + 2:
                v.append(('unbounded', e))
    # I2 init flag: true exactly on the first call after a transition
    trans_since = True
    prev_s = None
    for e in tr:
        if e[0] == 'T':
            trans_since = True
        elif e[0] == 'S':
            ev('inv_init')
            if e[2] is not trans_since:
                v.append(('init-flag-wrong' if trans_since else 'init-flag-repeated', e))
            # independent of the hook: a repeated call after Retry is not a first call
            if prev_s is not None and prev_s[4] == 'retry' and prev_s[1] == e[1] and prev_s[3] == e[3] and e[2] and not saw_c:
                v.append(('init-flag-repeated', e))
            trans_since = False
            prev_s = e
            saw_c = False
        elif e[0] == 'C':
            saw_c = True
            prev_s = None
    # runs
    starts = {e[4]: e for e in tr if e[0] == 'OP' and e[1] == 'start'}
    ccount = {}
    for e in tr:
        if e[0] == 'C':
            ccount[e[3]] = ccount.get(e[3], 0) + 1
    # I3 cleanup at most once per run; exactly once for an entered, interrupted run with a cleanup
    # walk the trace keeping the current run and its phase
    cur = None            # tag of the run whose states are executing
    phase = None          # 'normal' | 'cleanup-seq' | None
    ended = {}            # tag -> 'finish' | 'interrupted'
    pending_interrupt = False
    entered = set()
    last_op = None
    for idx, e in enumerate(tr):
        k = e[0]
        if k == 'OP' and e[1] in ('start', 'stop'):
            last_op = e
            if cur is not None and phase == 'normal':
                pending_interrupt = True
        elif k == 'S':
            tag = e[3]
            if tag != cur:
                # a new run is entered: the previous one must be over
                if cur is not None and phase == 'cleanup-seq':
                    # mechanism: was the sequence cut in a cycle that ran into the loop limit (the limit is shared by
                    # the interrupted run and its cleanup sequence: the follow-up states are dropped by the
                    # 'too many states chained' branch) or was a running sequence cut by something else?
                    ci = max(i for i in range(idx) if tr[i][0] == 'C')
                    seqtag = tr[ci][3]
                    last = max(i for i in range(ci, idx) if tr[i][0] in 'SC' and tr[i][3] == seqtag)
                    c0 = max(i for i in range(last) if tr[i][:2] == ('OP', 'cycle'))
                    cend = next((i for i in range(last, len(tr)) if tr[i][0] in ('CYC', 'EXC')), len(tr))
                    calls = sum(1 for x in tr[c0:cend] if x[0] in 'SC')
                    if calls >= maxloops:
                        v.append(('cleanup-sequence-cut-by-loop-limit', e))
                    else:
                        v.append(('cleanup-sequence-interrupted', e))
                cur, phase = tag, 'normal'
                pending_interrupt = False
            entered.add(tag)
            ret = e[4]
            if phase == 'cleanup-seq':
                ev('inv_sequence_uninterrupted')
                if ret in ('finish', 'raise', 'bad', 'none'):
                    cur, phase = None, None
            else:
                if ret == 'finish':
                    ended[tag] = 'finish'
                    cur, phase = None, None
                elif ret in ('raise', 'bad', 'none'):
                    ended[tag] = 'interrupted'
                    # cleanup (if any) follows as the next S/C event
                    nxt = next((x for x in tr[idx + 1:] if x[0] in 'SC'), None)
                    if not (nxt and nxt[0] == 'C' and nxt[3] == tag):
                        cur, phase = None, None
        elif k == 'C':
            tag = e[3]
            if phase == 'cleanup-seq':
                v.append(('cleanup-during-cleanup-sequence', e))
            ended.setdefault(tag, 'interrupted')
            if e[4] == 'seq':
                cur, phase = tag, 'cleanup-seq'
            else:
                cur, phase = None, None
            pending_interrupt = False
    end = tr[-1]
    for tag, st in starts.items():
        n = ccount.get(tag, 0)
        ev('inv_cleanup_once')
        if n > 1:
            v.append(('cleanup-twice', tag, n))
        has_cleanup = st[3] is not None
        if n and not has_cleanup:
            # "entered with exactly its attributes": a run started without a cleanup function has none
            v.append(('cleanup-of-a-run-started-without-cleanup', tag))
        if tag in entered and has_cleanup:
            still_current = end[1] and end[3] == tag and ended.get(tag) is None
            if ended.get(tag) == 'finish' and n:
                # cleanup after a normal finish: only legitimate if the finish happened in the cleanup phase
                first_c = next(i for i, x in enumerate(tr) if x[0] == 'C' and x[3] == tag)
                fin = next(i for i, x in enumerate(tr) if x[0] == 'S' and x[3] == tag and x[4] == 'finish')
                if fin < first_c:
                    v.append(('cleanup-after-finish', tag))
            elif ended.get(tag) == 'interrupted' and n == 0:
                v.append(('cleanup-missing', tag))
            elif ended.get(tag) is None and not still_current and n == 0:
                # the run disappeared (a newer run was entered or the machine is inactive) without cleanup
                v.append(('cleanup-missing', tag))
        if tag not in entered and n and not any(x[0] == 'T' for x in tr):
            v.append(('cleanup-of-unentered-run', tag))
    # I5 last operation wins (after settling)
    if last_op is not None:
        ev('inv_last_wins')
        if last_op[1] == 'stop':
            if end[1]:
                v.append(('active-after-stop', end))
        else:
            tag = last_op[4]
            mine = [x for x in tr if x[0] == 'S' and x[3] == tag]
            if not mine:
                v.append(('last-start-not-entered', last_op))
            elif mine[0][1] != last_op[2] or mine[0][2] is not True:
                v.append(('last-start-entered-wrong', last_op, mine[0]))
            # states of an older run must not run after the newest run was entered
            first = tr.index(mine[0]) if mine else len(tr)
            for x in tr[first:]:
                if x[0] == 'S' and x[3] != tag:
                    v.append(('older-run-after-newest', x))
                    break
    return v


class SMApi:
    def __init__(self):
        from frappy.lib import statemachine as m
        import logging
        lg = logging.getLogger('dummy')
        lg.addHandler(logging.NullHandler())
        lg.propagate = False
        lg.setLevel(100)
        self.StateMachine, self.Retry, self.Finish = m.StateMachine, m.Retry, m.Finish


def interesting(ops):
    """non-trivial: a stop/start is issued while a run may be active (after a start and a cycle)"""
    seen_start = cyc = False
    for op in ops:
        if op[0] == 'cycle' and len(op) > 1 and op[1] and seen_start:
            return True
        if op[0] == 'start':
            if seen_start and cyc:
                return True
            seen_start = True
            cyc = False
        elif op[0] == 'cycle':
            cyc = seen_start
        elif seen_start and cyc:
            return True
    return False


def judge(r, prog_id, prog, ops, tr, counts):
    viols = check_trace(tr, counts=counts)
    for viol in viols:
        r.violation(f'C14/{viol[0]}', f'{viol[0]}: {viol[1:]}'[:300],
                    {'kind': 'sm', 'prog': [prog[0], prog[1]], 'ops': [list(o) for o in ops], 'trace': [list(e) for e in tr[-60:]]})
    return viols


def run_exhaustive(r, api, progs, depth, shard_idx, nshards):
    counts = {}
    n = nnt = 0
    for pi, prog in enumerate(progs):
        if pi % nshards != shard_idx:
            continue
        h = Harness(api, prog)
        for d in range(1, depth + 1):
            for ops in itertools.product(ALPHABET, repeat=d):
                tr = h.run(ops)
                n += 1
                judge(r, pi, prog, ops, tr, counts)
                nt = interesting(ops)
                nnt += nt
                if nt and r.want_sample() and n % 997 == 0:
                    r.sample({'program': [prog[0], prog[1]], 'ops': [list(o) for o in ops], 'trace_tail': tr[-12:]})
    r.bulk(n, nnt)
    r.count('interrupting_sequences', nnt)
    r.count('sequences', n)
    for k, c in counts.items():
        r.count(k, c)
    return n


def run_random(r, api, rng, n):
    counts = {}
    for i in range(n):
        prog = normalize(gen_prog(rng))
        h = Harness(api, prog)
        ops = tuple(rng.choice(ALPHABET + [('cycle',)] * 3) for _ in range(rng.randint(8, 14)))
        tr = h.run(ops)
        judge(r, 'rnd', prog, ops, tr, counts)
        r.case(('rnd', repr(prog), ops), interesting(ops))
    r.count('sequences', n)
    r.count('random_sequences', n)
    for k, c in counts.items():
        r.count(k, c)


INJ_OPS = [('stop',), ('start', 'A', None), ('start', 'A', 'c'), ('start', 'B', None), ('start', 'B', 'c')]


def run_threaded(r, api, progs, rng, shard_idx, nshards, base_depth, nrandom, budget):
    """start/stop from a second thread between any two steps (lines) of a cycle

    systematic: for every program of this shard, every base sequence up to base_depth that ends in a cycle, every
    line of that last cycle and every operation: one run with a single injection (complete unless the time budget
    ends it); random: deep sequences with 1..3 injections anywhere"""
    import time
    counts = {}
    inj = LineInjector(api.StateMachine)
    t_end = time.time() + budget
    n = 0
    complete = True
    try:
        for pi, prog in enumerate(progs):
            if pi % nshards != shard_idx:
                continue
            h = Harness(api, prog)
            for d in range(1, base_depth + 1):
                for base in itertools.product(ALPHABET, repeat=d):
                    if base[-1][0] != 'cycle' or not any(o[0] == 'start' for o in base):
                        continue
                    h.run(base)
                    nlines = h.linecounts[sum(1 for o in base if o[0] == 'cycle') - 1]
                    r.maximum('lines_in_one_cycle', nlines)
                    if time.time() > t_end:
                        complete = False
                        break
                    for k in range(1, nlines + 1):
                        for op in INJ_OPS:
                            ops = base[:-1] + (('cycle', ((k, op),)),)
                            tr = h.run(ops)
                            n += 1
                            judge(r, pi, prog, ops, tr, counts)
                            if r.want_sample() and n % 499 == 0:
                                r.sample({'program': [prog[0], prog[1]], 'ops': [list(o) for o in ops],
                                          'trace_tail': [list(map(str, e)) for e in tr[-10:]]})
        r.bulk(n, n)
        r.count('threaded_single_injection_runs', n)
        r.count('threaded_sweep_complete' if complete else 'threaded_sweep_truncated')
        for i in range(nrandom):
            prog = normalize(gen_prog(rng))
            h = Harness(api, prog)
            ops = []
            for _ in range(rng.randint(6, 12)):
                op = rng.choice(ALPHABET + [('cycle',)] * 3)
                if op[0] == 'cycle' and rng.random() < 0.5:
                    op = ('cycle', tuple(sorted(((rng.randint(1, 30), rng.choice(INJ_OPS)) for _ in range(rng.choice([1, 1, 2, 3]))),
                                             key=lambda x: x[0])))
                ops.append(op)
            ops = tuple(ops)
            tr = h.run(ops)
            judge(r, 'rnd-thr', prog, ops, tr, counts)
            r.case(('rnd-thr', repr(prog), ops), interesting(ops))
        r.count('threaded_random_runs', nrandom)
        r.count('sequences', n + nrandom)
        r.count('injections_between_lines', inj.injected)
        r.count('injections_deferred_while_lock_held', inj.deferred)
        r.count('injections_after_cycle', inj.after)
    finally:
        inj.close()
    for k, c in counts.items():
        r.count(k, c)


# ------------------------------------------------------------------ module level (HasStates)

def make_module_class():
    from frappy.core import Drivable, Parameter, FloatRange, IDLE, BUSY, ERROR, Command
    from frappy.states import HasStates, Retry, Finish, status_code
    from frappy.lib.statemachine import StateMachine

    class Mod(HasStates, Drivable):
        script = None
        log_ = None

        def read_value(self):
            return 0

        @status_code(BUSY, 'phase a')
        def state_a(self, sm):
            return self._step('a', sm)

        @status_code(BUSY, 'phase b')
        def state_b(self, sm):
            return self._step('b', sm)

        def _step(self, name, sm):
            b = self.script.pop(0) if self.script else 'finish'
            self.log_.append(('S', name, b))
            if b == 'retry':
                return Retry
            if b == 'next':
                return self.state_b if name == 'a' else self.state_a
            if b == 'raise':
                raise ValueError('boom')
            if b == 'final':
                return self.final_status(IDLE, 'done')
            return Finish

        # cleanup sequences that take more than one poll cycle (stop / restart / error arriving while one is running)
        slow_cleanup = False

        def on_stop(self, sm):
            self.log_.append(('H', 'on_stop'))
            return self.state_cleanup if self.slow_cleanup else None

        def on_restart(self, sm):
            self.log_.append(('H', 'on_restart'))
            return self.state_cleanup if self.slow_cleanup else None

        def on_error(self, sm):
            self.log_.append(('H', 'on_error'))
            return super().on_error(sm)

        @status_code(BUSY, 'cleaning up')
        def state_cleanup(self, sm):
            self.log_.append(('S', 'cleanup', 'retry' if sm.init else 'done'))
            return Retry if sm.init else None

        def state_c(self, sm):   # no status attached: BUSY is the documented default for a start function
            return self._step('a', sm)

        def write_target(self, value):
            self.start_machine(self.state_a if value > 0 else self.state_c)
            return value

        @Command
        def go(self):
            """start the machine from a command (no access lock held, unlike write_target)"""
            self.start_machine(self.state_a)

        @Command
        def goplain(self):
            """a run explicitly started without any cleanup"""
            self.start_machine(self.state_a, cleanup=None)
    return Mod, IDLE, BUSY, ERROR


class PollInjector:
    """module level: the poller thread runs a poll cycle (cycle_machine) while a start / stop request is executing

    before the k-th line of HasStates.start_machine / stop_machine a real second thread starts m.cycle_machine(); the
    requesting thread continues as soon as the state machine cycle of that poll has returned (the rest of the poll - the
    status read - may have to wait for the access lock the request holds, as in the real node)"""
    TOOL = 4

    def __init__(self, HasStates):
        import sys
        import threading
        self.mon, self.threading = sys.monitoring, threading
        self.codes = [HasStates.start_machine.__code__, HasStates.stop_machine.__code__]
        self.m = None
        self.k = self.count = 0
        self.thread = None
        self.injected = 0
        self.requester = threading.get_ident()
        self.mon.use_tool_id(self.TOOL, 'c14-poll-inject')
        self.mon.register_callback(self.TOOL, self.mon.events.LINE, self.on_line)
        for c in self.codes:
            self.mon.set_local_events(self.TOOL, c, self.mon.events.LINE)

    def close(self):
        for c in self.codes:
            self.mon.set_local_events(self.TOOL, c, 0)
        self.mon.register_callback(self.TOOL, self.mon.events.LINE, None)
        self.mon.free_tool_id(self.TOOL)

    def arm(self, m, k):
        self.m, self.k, self.count, self.thread = m, k, 0, None

    def finish(self):
        """after the request returned: let the poll finish"""
        self.m = None
        t, self.thread = self.thread, None
        if t is not None:
            t.join(10)
            if t.is_alive():
                raise RuntimeError('injected poll cycle never finished')
        return t is not None

    def on_line(self, code, line):
        if self.m is None or self.threading.get_ident() != self.requester:
            return
        self.count += 1
        if self.count == self.k and self.thread is None:
            sm = self.m._state_machine
            done = self.threading.Event()
            real_cycle = type(sm).cycle

            def cycle():
                try:
                    real_cycle(sm)
                finally:
                    del sm.cycle
                    done.set()
            sm.cycle = cycle
            self.injected += 1
            self.thread = self.threading.Thread(target=self.m.cycle_machine)
            self.thread.start()
            # the cycle may itself need the access lock the request holds (status update in a transition): then the
            # poller simply waits inside its cycle until the request returns
            if done.wait(0.05):
                self.thread.join(0.003)       # finished, or waiting for the access lock of the request


def run_module(r, rng, n):
    from vlib import nodes
    from frappy.states import HasStates
    Mod, IDLE, BUSY, ERROR = make_module_class()
    inj = PollInjector(HasStates)
    try:
        _run_module(r, rng, n, inj, Mod, IDLE, BUSY, ERROR)
    finally:
        inj.close()
    r.count('module_polls_injected_into_requests', inj.injected)


def _run_module(r, rng, n, inj, Mod, IDLE, BUSY, ERROR):
    from vlib import nodes
    for i in range(n):
        m = nodes.make_module(Mod, 'm')
        m.earlyInit()
        m.initModule()
        # stand-alone: no poller; pollInfo is needed by start_machine
        from frappy.modulebase import PollInfo
        import threading
        m.pollInfo = PollInfo(1, threading.Event())
        m.log_ = log = []
        m.slow_cleanup = rng.random() < 0.4
        m.script = [rng.choice(['retry', 'retry', 'next', 'finish', 'raise', 'final']) for _ in range(rng.randint(0, 8))]
        ops = [rng.choice(['poll', 'poll', 'poll', 'start', 'stop', 'go', 'goplain']) for _ in range(rng.randint(3, 12))]
        if rng.random() < 0.15:
            # directed: a request revoked again inside one cleanup window (stop, restart, stop while the cleanup of the first
            # stop is still in progress) - the most recent request wins
            m.slow_cleanup = True
            first = rng.choice(['start', 'go'])
            ops = [first] + ['poll'] * rng.randint(1, 3) + ['stop'] + ['poll'] * rng.randint(0, 2) + \
                [rng.choice(['start', 'go'])] + ['poll'] * rng.choice([0, 0, 1]) + ['stop'] + \
                [rng.choice(['poll', 'poll', 'stop', 'start']) for _ in range(rng.randint(0, 3))]
            m.script = [rng.choice(['retry', 'retry', 'retry', 'next']) for _ in range(rng.randint(4, 8))]
        script0 = list(m.script)
        statuses = []
        active_from = None
        ok = True
        inject = rng.random() < 0.6
        stop_mark = None      # length of the step log when the last stop request returned (None: a start came later)
        plain_mark = None
        for oi, op in enumerate(ops + ['poll'] * SETTLE):
            try:
                if op == 'poll':
                    m.cycle_machine()
                else:
                    if inject and rng.random() < 0.6:
                        k = rng.randint(1, 12)
                        ops[oi] = f'{op}+poll@{k}' if oi < len(ops) else op
                        inj.arm(m, k)
                    sm_ = m._state_machine
                    before_stop = ('cleaning-up' if sm_.cleanup_reason is not None and sm_.is_active else 'running' if sm_.is_active else 'idle') + \
                        '-with-pending-' + (type(sm_.next_task).__name__.lower() if sm_.next_task is not None else 'nothing')
                    try:
                        if op == 'start':
                            m.write_target(rng.choice([1.0, -1.0]))
                        elif op == 'go':
                            m.go()
                        elif op == 'goplain':
                            m.goplain()
                        else:
                            m.stop()
                    finally:
                        if inj.finish():
                            op = 'poll-during-' + ('stop' if op == 'stop' else 'start')     # write_target and go both call start_machine
                    # the most recent request wins: after a stop no state of a run requested earlier is executed any more
                    # (only the cleanup of the interrupted run), until something is started again
                    stop_mark = len(log) if op == 'stop' else None
                    stop_state = before_stop
                    # a run started without cleanup on an idle machine: whatever ends it, no cleanup hook is executed
                    if op == 'goplain' and before_stop == 'idle-with-pending-nothing':
                        plain_mark = len(log)
                    elif op != 'stop':
                        plain_mark = None
            except Exception as e:
                r.violation('C14/module/raises', f'{op} raised {type(e).__name__}: {e}'[:200],
                            {'kind': 'module', 'script': script0, 'ops': ops})
                ok = False
                break
            if plain_mark is not None:
                r.count('inv_module_no_cleanup_hook_in_a_run_without_cleanup')
                hooks = [e for e in log[plain_mark:] if e[0] == 'H']
                if hooks:
                    r.violation('C14/module/cleanup-hook-runs-although-none-was-requested', f'start_machine(..., cleanup=None) on an idle machine, then {op}: the hook {hooks[0][1]} '
                                f'was executed: {log[plain_mark:][:5]}', {'kind': 'module', 'script': script0, 'ops': ops, 'slow_cleanup': m.slow_cleanup})
                    ok = False
                    break
            if stop_mark is not None:
                r.count('inv_module_nothing_runs_after_stop')
                late = [e for e in log[stop_mark:] if e[0] == 'S' and e[1] in ('a', 'b')]
                if late:
                    r.violation(f'C14/module/state-runs-after-stop/stop-while-{stop_state}', f'after the stop request (and no start since) the state function {late[0][1]} was executed: {log[stop_mark:][:5]}',
                                {'kind': 'module', 'script': script0, 'ops': ops, 'slow_cleanup': m.slow_cleanup})
                    ok = False
                    break
            st = m.status
            active = m._state_machine.is_active or m._state_machine.next_task is not None and \
                type(m._state_machine.next_task).__name__ == 'Start'
            statuses.append((op, int(st[0]), st[1], bool(active)))
            r.count('inv_module_status')
            busy = BUSY <= st[0] < ERROR
            if active and not busy:
                r.violation('C14/module/not-busy-while-active' + ('/' + op if op.startswith('poll-during') else ''), f'status {int(st[0])} {st[1]!r} while the machine is active after {op}',
                            {'kind': 'module', 'script': script0, 'ops': ops, 'statuses': statuses})
                ok = False
                break
            if not active and busy:
                r.violation('C14/module/busy-after-finish' + ('/' + op if op.startswith('poll-during') else ''), f'status {int(st[0])} {st[1]!r} although the machine is inactive after {op}',
                            {'kind': 'module', 'script': script0, 'ops': ops, 'statuses': statuses})
                ok = False
                break
        r.case(('module', tuple(script0), tuple(ops)), any(o.startswith(('start', 'go')) for o in ops) and
               (any(o.startswith('stop') for o in ops) or sum(o.startswith(('start', 'go')) for o in ops) > 1))
        r.count('module_sequences')
        if r.want_sample() and i % 50 == 0:
            r.sample({'module_script': script0, 'ops': ops, 'statuses': statuses[-6:]})


def run_rearm(r, api, rng, n):
    """a state that asks for a new run of itself (or of another state) and finishes - a measurement loop re-arming itself;
    also a second thread that keeps issuing start whenever the previous one has been taken: each new run begins, but ONE
    cycle makes a bounded number of state calls and returns"""
    SM = api.StateMachine
    Retry, Finish = api.Retry, api.Finish
    for i in range(n):
        calls = {'n': 0, 'cycle': 0}
        budget = rng.choice([3, 10, 10 ** 9])       # how often the state re-arms (for ever: every time it runs)
        steps = rng.choice([0, 1, 2])               # Retry steps before it re-arms

        def a(sm):
            calls['n'] += 1
            calls['cycle'] += 1
            if calls['cycle'] > 500:
                raise Runaway()
            if getattr(sm, 'k', 0) < steps:
                sm.k = getattr(sm, 'k', 0) + 1
                return Retry
            if calls['n'] <= budget:
                sm.start(a, k=0)
            return Finish
        sm = SM(a, k=0) if rng.random() < 0.5 else SM()
        if sm.statefunc is None:
            sm.start(a, k=0)
        worst = 0
        case = {'kind': 'rearm', 'budget': budget, 'steps': steps}
        try:
            for c in range(12):
                calls['cycle'] = 0
                sm.cycle()
                worst = max(worst, calls['cycle'])
        except Runaway:
            r.violation('C14/unbounded/state-re-arming-itself', f'a state that starts a new run of itself and finishes: one cycle made more than 500 state calls '
                        f'(it re-arms {"every time" if budget > 10 ** 6 else str(budget) + " times"})', case)
            return
        except Exception as e:
            r.violation('C14/raises', f'cycle raised {type(e).__name__}: {e} with a state re-arming itself'[:200], case)
            return
        r.count('rearm_sequences')
        r.maximum('rearm_max_state_calls_in_one_cycle', worst)
        r.case(('rearm', budget, steps), True)
        if worst > 2 * 10 + 2:
            r.violation('C14/unbounded/state-re-arming-itself', f'{worst} state calls in one cycle', case)
            return


def plan(tier, seed, scale=1.0):
    return [{'idx': i, 'depth': DEPTH[tier], 'nprog': NPROG[tier], 'nrandom': int(NRANDOM[tier] * scale),
             'nmodule': int(NMODULE[tier] * scale / 16) + 1,
             'thr_depth': 3 if tier == 'quick' else 4, 'thr_random': int((400 if tier == 'quick' else 20000) * scale),
             'thr_budget': 6 if tier == 'quick' else 600} for i in range(16)]


def programs(seed, nprog):
    rng = random.Random(f'C14/progs/{seed}')
    progs = [normalize(p) for p in BASE_PROGS]
    while len(progs) < nprog:
        progs.append(normalize(gen_prog(rng)))
    return progs[:nprog]


def run_shard(shard):
    r = rec.Recorder(shard)
    api = SMApi()
    rng = random.Random(f'C14/{shard["seed"]}/{shard["idx"]}')
    progs = programs(shard['seed'], shard['nprog'])
    run_exhaustive(r, api, progs, shard['depth'], shard['idx'], 16)
    r.exhaustive = True
    run_random(r, api, rng, shard['nrandom'])
    run_threaded(r, api, progs, rng, shard['idx'], 16, shard.get('thr_depth', 3), shard.get('thr_random', 400), shard.get('thr_budget', 6))
    run_module(r, rng, shard['nmodule'])
    run_rearm(r, api, rng, 40)
    return r.result()


def replay(case):
    r = rec.Recorder()
    if case.get('kind') == 'module':
        r.note('module cases are replayed by seed only')
        return r.result()
    api = SMApi()
    prog = normalize((case['prog'][0], case['prog'][1]))
    prog = ({k: [tuple(b) if isinstance(b, list) else b for b in v] for k, v in prog[0].items()},
            {k: tuple(b) if isinstance(b, list) else b for k, b in prog[1].items()})
    ops = [tuple(o) if len(o) < 2 or o[0] != 'cycle' else ('cycle', tuple((k, tuple(op)) for k, op in o[1])) for o in case['ops']]
    inj = LineInjector(api.StateMachine) if any(o[0] == 'cycle' and len(o) > 1 for o in ops) else None
    try:
        tr = Harness(api, prog).run(ops)
    finally:
        if inj:
            inj.close()
    judge(r, 'replay', prog, ops, tr, {})
    r.case(('replay',), True)
    return r.result()
