"""C11 - client: every caller gets its own reply or an error, under all interleavings

monitor: per-caller call/return records (token carried by each request identifies its reply) + thread
liveness + escaped exceptions, for the real SecopClient over the real AsynTcp on cooperative fake
sockets, against a scripted peer, under the deterministic scheduler with virtual time."""
import json
import random
import time

from vlib import rec

ID = 'C11'
LEVEL = 'exploration'
PROVISION = False
RULE = ('2..4 caller threads issuing requests through one SecopClient (equal and distinct (action, specifier) keys, known and '
        'unknown actions); scripted peer: reply orders (immediate, reversed, shuffled batches), interleaved updates, error '
        'replies, silence, connection drop by the peer / by the user / by both at every step of the exchange; schedules '
        'seq, rw, pct and a time-boxed pb(1) sweep; LINE yield points in the tx / rx threads, queue_request, get_reply, '
        'disconnect. distinct = schedule signature x scenario; non-trivial = run with a fault or with equal keys')
ASSUMPTIONS = ['every request carries a unique token which the peer echoes, so a reply identifies its request',
               'time-outs are judged on the virtual clock: caller time-out 10 s + one receive period (1 s) + 0.5 s; '
               'release after a drop within one receive period + 0.5 s',
               'the peer answers *IDN?, describe, activate as a node would; the heartbeat ping is answered']
REQUIRED = ['runs', 'conclusive_runs', 'callers_checked', 'replies_matched', 'faulted_runs', 'drops_peer', 'drops_user', 'shutdowns_checked', 'equal_key_runs']

N = {'quick': 110, 'thorough': 6000}
DESC = {'modules': {'m': {'accessibles': {
    'value': {'datainfo': {'type': 'double'}, 'readonly': True, 'description': 'v'},
    'target': {'datainfo': {'type': 'double'}, 'readonly': False, 'description': 't'},
    '_p': {'datainfo': {'type': 'int', 'min': 0, 'max': 10 ** 9}, 'readonly': False, 'description': 'p'}},
    'description': 'm', 'interface_classes': ['Writable'], 'features': [], 'implementation': 'x'}},
    'equipment_id': 'peer', 'description': 'scripted peer', 'firmware': 'fake'}
TIMEOUT = 10.0
PERIOD = 1.0


def plan(tier, seed, scale=1.0):
    return [{'idx': i, 'n': max(1, int(N[tier] * scale)), 'pb_budget': 6 if tier == 'quick' else 150} for i in range(16)]


class World:
    def __init__(self, r):
        from vlib import shimimport, detsched, fakes
        shimimport.load()
        self.D = detsched
        import frappy.client as C
        import frappy.lib.asynconn as A
        from frappy.protocol.interface import decode_msg, encode_msg_frame
        from vlib import env
        self.r, self.C, self.A, self.env = r, C, A, env
        self.decode, self.encode = decode_msg, encode_msg_frame
        self.sockmod = fakes.install(A)
        cls = C.SecopClient
        self.watch = [getattr(cls, '_SecopClient__txthread'), getattr(cls, '_SecopClient__rxthread'), cls.queue_request, cls.get_reply,
                      cls.disconnect, cls.request, cls.connect, cls._reconnect]
        self.nwatched = detsched.watch_lines(*self.watch)
        self.shim_ok = shimimport.verify()
        # the finalizer calls disconnect() from whatever thread the garbage collector happens to run in
        cls.__del__ = lambda self_: None

    # ---------------------------------------------------------------- scenario
    def gen_scenario(self, rng, small=False):
        ncall = 2 if small else rng.choice([2, 3, 4])
        kinds = ['change-target', 'change-target', 'read-value', 'change-p', 'ping', 'unknown']
        callers = []
        equal = rng.random() < 0.5
        for i in range(ncall):
            n = 1 if small else rng.choice([1, 1, 2])
            callers.append([('change-target' if equal else rng.choice(kinds)) for _ in range(n)])
        fault = 'none' if small and rng.random() < 0.5 else rng.choice(['none', 'none', 'peer-drop', 'user-drop', 'both-drop', 'silence', 'error-replies', 'send-fails'])
        scen = {'callers': callers, 'order': rng.choice(['immediate', 'reverse', 'shuffle', 'delayed']), 'updates': rng.random() < 0.4,
                'fault': fault, 'fault_at': rng.randint(0, max(0, sum(len(c) for c in callers))), 'peerseed': rng.randrange(1 << 20)}
        if rng.random() < 0.3:
            scen['small_send_buffer'] = rng.choice([5, 12, 40])
        if not small and rng.random() < 0.15:
            scen['stray_errors'] = True
            callers[rng.randrange(ncall)][0] = 'unknown'
        if fault in ('none', 'error-replies') and rng.random() < 0.35:
            scen['lazy_connect'] = True
            if rng.random() < 0.3:
                scen['drop_in_handshake'] = True
                scen['fault'] = 'peer-drop'
                scen['fault_at'] = 99
        if rng.random() < 0.25:
            # the peer's replies arrive in two pieces, the second after a pause that may be longer than the receiver's
            # socket time-out (1 s): the bytes already received must not be lost
            scen['pieces'] = rng.choice([0.0, 0.3, 1.5, 2.5])
        if not small and rng.random() < 0.2:
            # staggered requests with equal keys against a slow peer that never answers the first one: time-outs of
            # sent and of held-back requests overlap with later requests of the same key
            ncall = rng.choice([2, 3, 4])
            scen.update(callers=[['change-target'] * rng.choice([1, 1, 2]) for _ in range(ncall)], fault='silence-first', fault_at=1,
                        order='slow', peer_delay=rng.choice([3.0, 5.0, 7.0]),
                        start_delays=[0.0] + sorted(rng.choice([1.0, 3.0, 5.0, 8.0, 10.5, 11.0, 12.0, 14.0]) for _ in range(ncall - 1)))
            if rng.random() < 0.5:
                # steady traffic: the node streams updates more often than once per second, the receiver is never idle
                scen['stream'] = rng.choice([0.2, 0.45])
        return scen

    # ---------------------------------------------------------------- scripted peer
    def make_peer(self, scen, state):
        D = self.D
        rng = random.Random(scen['peerseed'])
        encode, decode = self.encode, self.decode

        def serve(sock):
            s = D.CURRENT
            buf = b''
            held = []
            nreq = 0

            def send_reply(item):
                line, meta = item
                gap = scen.get('pieces')
                if gap is None or len(line) < 4:
                    ok = sock.peer_send(line)
                else:
                    cut = rng.randrange(1, len(line) - 1)
                    state['pieces_sent'] = state.get('pieces_sent', 0) + 1
                    sock.peer_send(line[:cut])
                    D.vsleep(gap)
                    ok = not sock.closed and sock.peer_send(line[cut:])
                if ok:
                    state['replied'].append((s.now,) + meta)    # the whole reply is on the wire from now on
                return ok

            def flush():
                order = scen['order']
                if order == 'reverse':
                    held.reverse()
                elif order == 'shuffle':
                    rng.shuffle(held)
                for line in held:
                    if scen['updates'] and rng.random() < 0.5:
                        sock.peer_send(encode('update', 'm:value', [rng.random(), {'t': 1.0}]))
                    send_reply(line)
                del held[:]
            while True:
                data = sock.peer_recv(timeout=0.05 if held else None)
                if data is None:
                    flush()
                    continue
                if data == b'' and sock.closed:
                    return
                buf += data
                while b'\n' in buf:
                    line, buf = buf.split(b'\n', 1)
                    try:
                        action, ident, payload = decode(line)
                    except Exception:
                        continue
                    if action == '*IDN?':
                        sock.peer_send(b'ISSE&SINE2020,SECoP,V2019-09-16,v1.0\n')
                    elif action == 'describe':
                        if scen.get('drop_in_handshake') and not state.get('handshake_dropped'):
                            # the connection is lost in the middle of the start-up exchange of connect()
                            state['handshake_dropped'] = True
                            state['drop_time'] = s.now
                            state['peer_dropped'] = True
                            self.sockmod.listeners.clear()
                            sock.peer_close()
                            return
                        sock.peer_send(encode('describing', '.', DESC))
                    elif action == 'activate':
                        sock.peer_send(encode('update', 'm:value', [0.0, {'t': 1.0}]))
                        sock.peer_send(encode('active'))
                    elif action == 'ping' and not str(ident).startswith('tok'):
                        sock.peer_send(encode('pong', ident, [None, {'t': 1.0}]))
                    else:
                        nreq += 1
                        state['requests_seen'].append((s.now, action, ident, payload))
                        fault = scen['fault']
                        if fault in ('peer-drop', 'both-drop') and nreq > scen['fault_at']:
                            state['drop_time'] = s.now
                            state['peer_dropped'] = True
                            self.sockmod.listeners.clear()       # reconnect attempts are refused from now on
                            sock.peer_close()
                            return
                        if (fault == 'silence' and nreq > scen['fault_at']) or (fault == 'silence-first' and nreq <= scen['fault_at']):
                            state['silenced'].append((action, ident, payload))
                            continue
                        if scen.get('stray_errors') and action == 'xyz':
                            # an error reply that answers nobody (a late answer to a request given up long ago, a duplicate)
                            # arrives while a request with an unknown action is waiting: it is not that request's answer
                            sock.peer_send(encode(rng.choice(['error_change', 'error_read', 'error_do']), rng.choice(['m:stranger', 'x:y', 'm:target2']),
                                                  ['BadValue', 'answer to nobody', {}]))
                            state['strays_sent'] = state.get('strays_sent', 0) + 1
                        if fault == 'error-replies' and rng.random() < 0.5:
                            reply = encode('error_' + action, ident, ['HardwareError', f'err-{json.dumps(payload)}', {}])
                        elif action == 'change':
                            reply = encode('changed', ident, [payload, {'t': 1.0}])
                        elif action == 'read':
                            reply = encode('reply', ident, [float(state['read_tokens'].pop(0)) if state['read_tokens'] else 0.0, {'t': 1.0}])
                        elif action == 'ping':
                            reply = encode('pong', ident, [None, {'t': 1.0}])
                        else:
                            reply = encode(action + '_reply', ident, payload)
                        meta = (action, ident, payload)
                        if scen['order'] == 'slow':
                            # replies are sent peer_delay seconds after the request, without blocking the receiver
                            def later(reply=reply, d=scen['peer_delay'], meta=meta):
                                D.vsleep(d)
                                if not sock.closed and sock.peer_send(reply):   # (whole: pieces of concurrent replies would interleave)
                                    state['replied'].append((D.CURRENT.now,) + meta)
                            D.CoThread(target=later, name=f'peer-reply{nreq}').start()
                        elif scen['order'] == 'immediate':
                            send_reply((reply, meta))
                        elif scen['order'] == 'delayed':
                            D.vsleep(rng.choice([0.0, 0.01, 0.5, 2.0]))
                            send_reply((reply, meta))
                        else:
                            held.append((reply, meta))
                            if len(held) >= 2:
                                flush()

        def stream(sock):
            s = D.CURRENT
            n = 0
            while not sock.closed and not sock.peer_closed and s.now < D.T0 + 45:
                D.vsleep(scen['stream'])
                n += 1
                if sock.closed or not sock.peer_send(encode('update', 'm:value', [float(n), {'t': 1.0}])):
                    break
                state['streamed'] = state.get('streamed', 0) + 1

        def listener(sock):
            if scen.get('small_send_buffer'):
                sock.send_limit = scen['small_send_buffer']     # (matters only for code that uses send() where sendall() is due)
            t = D.CoThread(target=serve, args=(sock,), name=f'peer{len(self.sockmod.sockets)}')
            t.start()
            if scen.get('stream'):
                D.CoThread(target=stream, args=(sock,), name=f'peer-stream{len(self.sockmod.sockets)}').start()
        return listener

    # ---------------------------------------------------------------- one run
    def run(self, scen, strategy, seed):
        r, D, C = self.r, self.D, self.C
        state = {'requests_seen': [], 'replied': [], 'silenced': [], 'drop_time': None, 'peer_dropped': False, 'read_tokens': [], 'user_drop_time': None}
        self.sockmod.listeners.clear()
        del self.sockmod.attempts[:]
        del self.sockmod.sockets[:]
        self.sockmod.listen('peerhost', 5000, self.make_peer(scen, state))
        results = {}
        info = {}
        token = [0]

        def root():
            s = D.CURRENT
            cl = C.SecopClient('tcp://peerhost:5000', log=None)
            if scen.get('lazy_connect'):
                # the client is not connected beforehand: the first requests of all callers connect it (at the same time)
                state['lazy'] = True
            else:
                try:
                    cl.connect()
                except Exception as e:
                    info['connect_error'] = f'{type(e).__name__}: {e}'[:200]
                    return
            info['client'] = cl

            def caller(i):
                if scen.get('start_delays'):
                    D.vsleep(scen['start_delays'][i])
                for j, kind in enumerate(scen['callers'][i]):
                    token[0] += 1
                    tok = token[0] * 10 + i
                    rec_ = {'kind': kind, 'tok': tok, 't_call': s.now}
                    results[(i, j)] = rec_
                    try:
                        if kind == 'change-target':
                            rep = cl.request('change', 'm:target', float(tok))
                        elif kind == 'change-p':
                            rep = cl.request('change', 'm:_p', tok)
                        elif kind == 'read-value':
                            state['read_tokens'].append(tok)
                            rep = cl.request('read', 'm:value')
                        elif kind == 'ping':
                            rep = cl.request('ping', f'tok{tok}')
                        else:
                            rep = cl.request('xyz', 'm:any', tok)
                        rec_['reply'] = list(rep)
                    except Exception as e:
                        rec_['error'] = (type(e).__name__, str(e)[:120])
                    rec_['t_ret'] = s.now
            if scen['fault'] == 'send-fails':
                # the connection loss is noticed by the transmit thread first (its send fails) while the receive thread is
                # still waiting for input: the peer neither answers nor closes
                self.sockmod.sockets[-1].fail_send = BrokenPipeError(32, 'Broken pipe')
                self.sockmod.listeners.clear()
                state['peer_dropped'] = True
                state['drop_time'] = s.now
            ths = [D.CoThread(target=caller, args=(i,), name=f'caller{i}') for i in range(len(scen['callers']))]
            for t in ths:
                t.start()
            if scen['fault'] in ('user-drop', 'both-drop'):
                D.vsleep(0.00002 * scen['fault_at'])
                state['user_drop_time'] = s.now
                try:
                    cl.disconnect()
                    info['disconnect1'] = 'ok'
                except Exception as e:
                    info['disconnect1'] = f'{type(e).__name__}: {e}'[:200]
            for t in ths:
                t.join()
            info['t_callers_done'] = s.now
            info['connections_when_callers_done'] = sum(1 for a in self.sockmod.attempts if a[2] == 'connected')
            try:
                cl.disconnect()
                info['disconnect2'] = 'ok'
            except Exception as e:
                info['disconnect2'] = f'{type(e).__name__}: {e}'[:200]
            info['t_end'] = s.now
        s = D.Sched(strategy, seed, horizon=150, grace=25, max_steps=120000)
        s.run(root, wall_timeout=90)
        case = {'scenario': scen, 'strategy': ['prefix', [list(x) for x in strategy[1]]] if strategy[0] == 'prefix' else list(strategy), 'seed': seed}
        r.count('runs')
        if scen['fault'] != 'none':
            r.count('faulted_runs')
        if len({k for c in scen['callers'] for k in c}) < sum(len(c) for c in scen['callers']):
            r.count('equal_key_runs')
        if s.status == 'budget':
            # strict-priority schedules can turn the client's own polling loop (rx thread re-queues parked requests,
            # tx thread parks them again) into a livelock that no fair scheduler produces: such a run is set aside
            # (counted), it is neither held nor violated
            r.count('runs_set_aside_step_budget')
            return s
        if s.status == 'watchdog':
            r.inconclusive.append('wall-clock watchdog fired')
            return s
        r.count('conclusive_runs')
        r.case((strategy[0], s.signature(), scen['fault'], scen['order'], len(scen['callers'])), scen['fault'] != 'none' or s.npreempt > 0)
        if r.want_sample() and scen['fault'] != 'none':
            r.sample({'scenario': scen, 'results': {f'{k[0]}.{k[1]}': {kk: vv for kk, vv in v.items() if kk in ('kind', 'error', 't_call', 't_ret')} for k, v in results.items()}})
        self.judge(s, scen, state, results, info, case)
        return s

    def reconnect_class(self, first_drop, rec_):
        """did somebody (re)connect between the drop and the caller's return?  connect() replaces the request
        tables - a different mechanism from a plain missing wake-up"""
        if getattr(self, 'cur_state', {}).get('handshake_dropped'):
            return 'in-the-start-up-exchange'         # the connection was lost while connect() was waiting for the description
        return 'during-reconnect' if any(first_drop <= a[0] <= rec_['t_ret'] for a in self.sockmod.attempts[1:]) else 'no-reconnect'

    def judge(self, s, scen, state, results, info, case):
        r = self.r
        self.cur_state = state
        if 'connect_error' in info:
            r.violation('C11/connect-fails', info['connect_error'], case)
            return
        stuck = [a for a in s.alive if a[0].startswith('caller') or a[0] == 'root'] if s.status in ('horizon', 'deadlock') else []
        if stuck:
            # mechanism: which worker threads of the client are stuck together with the caller
            pattern = '+'.join(sorted({a[0].split(':')[-1] for a in s.alive if a[0].startswith('frappy.client:')})) or 'no-client-thread'
            who = 'with-user-disconnect' if scen['fault'] in ('user-drop', 'both-drop') else 'connection-lost-only'
            r.violation(f'C11/caller-never-returns/{pattern}/{who}', f'run ended with {s.status}; stuck: {s.alive[:5]}', case)
            return
        drop = state['drop_time'] if state['peer_dropped'] else None
        udrop = state['user_drop_time']
        if state.get('lazy'):
            r.count('runs_connected_by_the_first_requests')
            # (counted when the last caller has returned: the user's final disconnect() may itself trigger a short-lived
            # reconnect - the mechanism of the listed .../with-user-disconnect findings -, which is not a connection opened
            # by the first requests)
            nconn = info.get('connections_when_callers_done', sum(1 for a in self.sockmod.attempts if a[2] == 'connected'))
            if nconn > 1 and first_drop_none(state):
                r.violation('C11/connected-more-than-once', f'{nconn} connections were opened by the first requests of {len(scen["callers"])} callers (no connection was lost)', case)
                return
        if state.get('streamed'):
            r.count('runs_with_steady_update_traffic')
        if state.get('strays_sent'):
            r.count('stray_error_replies_while_an_unknown_action_waits', state['strays_sent'])
        if state.get('pieces_sent'):
            r.count('replies_sent_in_two_pieces', state['pieces_sent'])
            if (scen.get('pieces') or 0) > 1.0:
                r.count('replies_with_a_pause_longer_than_the_socket_timeout', state['pieces_sent'])
        if drop is not None:
            r.count('drops_peer')
        if udrop is not None:
            r.count('drops_user')
        first_drop = min([t for t in (drop, udrop) if t is not None], default=None)
        def earlier_timeout(rec_):
            """an earlier request with the same key timed out: its reply may still arrive and is then, without message ids,
            necessarily taken for the reply of the next request with that key (and that one's reply for the one after it)"""
            # (not necessarily one that was called earlier: a fresh request may overtake a held back one)
            return any(v is not rec_ and v['kind'] == rec_['kind'] and v['t_call'] < rec_.get('t_ret', 1e99) and v.get('error', ('',))[0] == 'TimeoutError'
                       for v in results.values())

        # ---- held back requests are released promptly: a request goes out on the wire as soon as no other request with the
        # same key is outstanding - it waits for nothing else (a reply to a request with ANOTHER key, a later time-out).
        # Measured at the client's socket (sent_log), not at the peer, which may be busy sleeping.
        if first_drop is None and scen['fault'] in ('none', 'error-replies', 'silence-first') and not state.get('lazy') and s.status == 'ok':
            wire = {}
            for sock in self.sockmod.sockets:
                for t, data in sock.sent_log:
                    for line in data.split(b'\n'):
                        try:
                            a_, i_, pl_ = self.decode(line)
                        except Exception:
                            continue
                        wire.setdefault((a_, json.dumps(pl_) if a_ != 'ping' else i_), t)
            for key, rec_ in sorted(results.items()):
                if rec_['kind'] == 'read-value' or 't_ret' not in rec_:
                    continue
                tok = rec_['tok']
                wkey = {'change-target': ('change', json.dumps(float(tok))), 'change-p': ('change', json.dumps(tok)), 'ping': ('ping', f'tok{tok}'),
                        'unknown': ('xyz', json.dumps(tok))}[rec_['kind']]
                t_sent = wire.get(wkey)
                if t_sent is None:
                    continue          # (requests that never went out are judged below)
                r.count('send_promptness_checked')
                blockers = [v['t_ret'] + (1.2 if v.get('error', ('',))[0] == 'TimeoutError' else 0.0) for k2, v in results.items()
                            if k2 != key and v['kind'] == rec_['kind'] and 't_ret' in v and v['t_call'] < t_sent and v['t_ret'] <= t_sent + 0.3]
                # (+0.3: the receive thread releases the next request before the caller of the answered one has woken up)
                allow = max([rec_['t_call']] + blockers) + 0.5
                if t_sent > allow:
                    # mechanism: a request handed to the transmit thread (by its caller, or by the requeue after a reply) at the
                    # very moment its key is being freed can slip between the transmit thread's "key in use?" test and its
                    # pending.put() - nobody requeues it until the next matched message (lost wake-up, at worst the next
                    # heartbeat).  A request that had been resting in 'pending' when its key became free is another matter.
                    raw = [v['t_ret'] for k2, v in results.items() if k2 != key and v['kind'] == rec_['kind'] and 't_ret' in v and
                           v['t_call'] < t_sent and v['t_ret'] <= t_sent + 0.3]
                    t_free = max(raw, default=rec_['t_call'])       # the caller of the last request with this key returned
                    # when was this request last handed to the transmit thread before that?  by its caller, or by the requeue that
                    # follows every earlier reply
                    # (every matched reply requeues, whatever its key: replies to other requests count as well)
                    others_ = sorted(v['t_ret'] for k2, v in results.items() if k2 != key and 't_ret' in v and ('reply' in v or v.get('error', ('',))[0] not in ('', 'TimeoutError')))
                    others_ = [x for x in others_ if x < t_free + 0.05]
                    if others_ and abs(others_[-1] - t_free) < 1e-9:
                        others_.pop()          # (the request that freed the key itself)
                    t_handed = max([rec_['t_call']] + [x for x in raw if x < t_free - 1e-9] + others_)
                    how = 'issued-while-its-key-was-being-freed' if t_free - t_handed < 0.05 else 'after-waiting-in-the-queue'
                    # another mechanism: a request with the same key went on the wire at the very moment its caller gave up (the
                    # transmit thread had looked at the give-up mark just before): nobody cleans it up, it occupies the key until
                    # the peer answers it
                    def wkey_(v_):
                        return {'change-target': ('change', json.dumps(float(v_['tok']))), 'change-p': ('change', json.dumps(v_['tok'])),
                                'ping': ('ping', f'tok{v_["tok"]}'), 'unknown': ('xyz', json.dumps(v_['tok']))}.get(v_['kind'])
                    zombies = [k2 for k2, v in results.items() if k2 != key and v['kind'] == rec_['kind'] and v.get('error', ('',))[0] == 'TimeoutError'
                               and wire.get(wkey_(v)) is not None and wire[wkey_(v)] >= v['t_ret'] - 0.05 and wire[wkey_(v)] <= t_sent]
                    if how == 'after-waiting-in-the-queue' and zombies:
                        how = 'behind-a-request-sent-when-its-caller-gave-up'
                    r.violation(f'C11/request-held-back-although-its-key-was-free/{how}',
                                f'caller {key} ({rec_["kind"]}) called at {rec_["t_call"] - self.D.T0:.2f}, the last request with the same key ended at '
                                f'{max(blockers, default=rec_["t_call"]) - self.D.T0:.2f}, but its request went on the wire only at {t_sent - self.D.T0:.2f}', case)
                    return
        for key, rec_ in sorted(results.items()):
            r.count('callers_checked')
            if 't_ret' not in rec_:
                r.violation('C11/caller-never-returns/at-end-of-run', f'caller {key} ({rec_["kind"]}) has not returned at the end of the run', case)
                return
            dt = rec_['t_ret'] - rec_['t_call']
            tok = rec_['tok']
            if 'reply' in rec_:
                action, ident, data = rec_['reply']
                kind = rec_['kind']
                ok = {'change-target': action == 'changed' and ident == 'm:target' and data and data[0] == float(tok),
                      'change-p': action == 'changed' and ident == 'm:_p' and data and data[0] == tok,
                      'read-value': action == 'reply' and ident == 'm:value',
                      'ping': action == 'pong' and ident == f'tok{tok}',
                      'unknown': action == 'xyz_reply' and data == tok}[kind]
                # the token the reply carries (the request it really answers)
                rtok = data[0] if action == 'changed' and data else data if action == 'xyz_reply' else None
                if not ok and rtok is not None and any(v is not rec_ and v['kind'] == kind and v.get('tok') == rtok for v in results.values()) and \
                        earlier_timeout(rec_):
                    # the reply of a request that had already timed out arrived late: without message ids it is taken for
                    # the reply of the next request with the same key, whose own reply then shifts to the one after it
                    # (the value is a real reply to another request of this run) - counted, not judged
                    r.count('late_replies_taken_for_the_next_equal_request')
                    continue
                if not ok:
                    r.violation(f'C11/wrong-reply/{kind}', f'caller {key} sent token {tok}, got {rec_["reply"]!r}'[:200], case)
                    return
                r.count('replies_matched')
            else:
                cls, text = rec_['error']
                if cls == 'HardwareError':
                    mine = f'err-{json.dumps(float(tok) if rec_["kind"] == "change-target" else tok)}' in text
                    if not mine and rec_['kind'] not in ('read-value', 'ping') and earlier_timeout(rec_) and \
                            any(f'err-{json.dumps(float(v["tok"]) if v["kind"] == "change-target" else v["tok"])}' in text for v in results.values() if v['kind'] == rec_['kind']):
                        r.count('late_replies_taken_for_the_next_equal_request')     # the same, for a late error reply
                        continue
                    if not mine and rec_['kind'] not in ('read-value', 'ping'):
                        r.violation('C11/wrong-error-reply', f'caller {key} token {tok} got the error {text!r}', case)
                        return
                    r.count('replies_matched')
                elif cls in ('ConnectionError', 'ConnectionClosed', 'BrokenPipeError', 'CommunicationFailedError', 'OSError', 'ConnectionRefusedError'):
                    if first_drop is None and scen['fault'] not in ('silence', 'silence-first'):
                        r.violation('C11/connection-error-without-drop', f'caller {key}: {cls}: {text}', case)
                        return
                elif cls == 'TimeoutError':
                    silenced = scen['fault'] == 'silence' or (scen['fault'] == 'silence-first' and
                                                              any(pl == float(tok) for a, i, pl in state['silenced']))
                    # equal keys are sent one at a time and the peer answers one request after the other (possibly in two
                    # pieces with a pause): the time-out legitimately includes queueing on both sides.  Judged only if the
                    # whole reply was on the wire at least half a second before the caller's deadline
                    want = float(tok) if rec_['kind'] == 'change-target' else tok
                    # a request that never reached the peer must have been held back by another request with the same key that
                    # was outstanding at some time of the wait - not by one whose caller had long given up
                    seen = [t for t, a, i, pl in state['requests_seen'] if pl == want or i == f'tok{tok}']
                    if not seen and first_drop is None and rec_['kind'] != 'read-value' and scen['fault'] in ('none', 'silence-first', 'error-replies'):
                        # (fault 'silence': the peer would not have answered it either - whether it was sent is not observable)
                        r.count('unsent_requests_examined')
                        others = [k2 for k2, v in results.items() if k2 != key and v['kind'] == rec_['kind']
                                  and v['t_call'] < rec_['t_ret'] and v.get('t_ret', 1e99) > rec_['t_call']]
                        if not others:
                            # mechanism: was it issued while a request with the same key, whose caller had just given up, still
                            # occupied the key (up to one receive attempt until the clean-up)?  then it is the lost wake-up between the
                            # transmit and the receive thread - with update traffic only (no matched reply, no heartbeat) for ever
                            near = any(k2 != key and v['kind'] == rec_['kind'] and v.get('error', ('',))[0] == 'TimeoutError' and
                                       rec_['t_call'] - 1.5 <= v.get('t_ret', -1) <= rec_['t_call'] + 0.05 for k2, v in results.items())
                            r.violation('C11/request-never-sent' + ('/issued-while-its-key-was-being-freed' if near else ''),
                                        f'caller {key} ({rec_["kind"]}) timed out after {dt:.2f} s, its request never reached the peer '
                                        f'and no other request with the same key was outstanding during its wait', case)
                            return
                    done = [t for t, a, i, pl in state['replied'] if pl == want or i == f'tok{tok}']
                    late = not done or done[0] + 0.5 > rec_['t_call'] + TIMEOUT
                    if not silenced and first_drop is None and late:
                        r.count('timeouts_explained_by_queueing')
                        continue
                    if not silenced and first_drop is None:
                        r.violation('C11/timeout-although-peer-replied', f'caller {key} ({rec_["kind"]}) timed out after {dt:.2f} s', case)
                        return
                    if first_drop is not None and not silenced:
                        r.violation('C11/caller-not-released-at-drop/' + self.reconnect_class(first_drop, rec_), f'caller {key} ({rec_["kind"]}) waited for its full time-out ({dt:.2f} s) although the '
                                    f'connection was lost {rec_["t_ret"] - first_drop:.2f} s earlier', case)
                        return
                else:
                    r.violation(f'C11/unexpected-exception/{cls}', f'caller {key}: {cls}: {text}', case)
                    return
            if dt > TIMEOUT + PERIOD + 0.5:
                who = 'with-user-disconnect' if scen['fault'] in ('user-drop', 'both-drop') else 'connection-lost-only' if first_drop is not None else 'no-drop'
                r.violation(f'C11/caller-waits-longer-than-timeout/{who}', f'caller {key} ({rec_["kind"]}) returned after {dt:.2f} virtual s', case)
                return
            if first_drop is not None and 'error' in rec_ and rec_['t_call'] <= first_drop and rec_['t_ret'] - first_drop > PERIOD + 0.5 \
                    and rec_['error'][0] != 'HardwareError':
                r.violation('C11/caller-not-released-at-drop/' + self.reconnect_class(first_drop, rec_), f'caller {key} ({rec_["kind"]}) returned {rec_["t_ret"] - first_drop:.2f} s after the connection was lost '
                            f'({rec_["error"][0]})', case)
                return
        # shutdown
        r.count('shutdowns_checked')
        for k in ('disconnect1', 'disconnect2'):
            if info.get(k, 'ok') != 'ok':
                mech = 'AttributeError-join' if "'NoneType' object has no attribute 'join'" in info[k] else info[k].split(':')[0]
                r.violation(f'C11/disconnect-raises/{mech}', f'{k}: {info[k]}', case)
                return
        if s.escaped:
            names = sorted({e[0].split(':')[-1] for e in s.escaped})
            mech = 'AttributeError' if any('AttributeError' in e[1] for e in s.escaped) else s.escaped[0][1].split(':')[0]
            r.violation(f'C11/exception-escapes-client-thread/{mech}', f'{[(e[0], e[1]) for e in s.escaped][:2]}', dict(case, traceback=s.escaped[0][2]))
            return
        alive = [a for a in s.alive if not a[0].startswith('peer')]
        if alive:
            what = sorted({a[0].split(':')[-1] for a in alive})
            r.violation(f'C11/thread-alive-after-shutdown/{"+".join(what)[:60]}', f'{alive[:3]} still alive {self.D.CURRENT is None and ""}after disconnect() returned', case)
            return


def run_shard(shard):
    r = rec.Recorder(shard)
    rng = random.Random(f'C11/{shard["seed"]}/{shard["idx"]}')
    w = World(r)
    if not all(w.shim_ok.values()):
        r.inconclusive.append(f'shim binding incomplete: {w.shim_ok}')
        return r.result()
    r.maximum('line_watched_code_objects', w.nwatched)
    sub = random.Random(f'C11/pb/{shard["seed"]}/{shard["idx"]}')
    scen = w.gen_scenario(sub, small=True)
    t_end = time.time() + shard['pb_budget']
    stack = [[]]
    runs = 0
    complete = True
    while stack:
        if time.time() > t_end:
            complete = False
            break
        prefix = stack.pop()
        s = w.run(scen, ('prefix', [tuple(x) for x in prefix]), 0)
        runs += 1
        if len(prefix) < 1 and s.status == 'ok':
            for i in range(len(s.choice_log)):
                for alt in s.choice_log[i]:
                    stack.append(prefix + [[i, alt]])
    r.count('pb_runs', runs)
    r.count('pb1_complete' if complete else 'pb1_truncated')
    for i in range(shard['n']):
        scen = w.gen_scenario(rng)
        seed = rng.randrange(1 << 30)
        q = i % 4
        if q == 0:
            w.run(scen, ('seq',), seed)
        elif q == 1:
            w.run(scen, ('rw', rng.choice([0.02, 0.1, 0.3])), seed)
        else:
            w.run(scen, ('pct', rng.choice([1, 2, 3]), 600), seed)
    w.D.unwatch_all()
    return r.result()


def first_drop_none(state):
    return state.get('drop_time') is None and state.get('user_drop_time') is None and not state.get('peer_dropped')


def replay(case):
    r = rec.Recorder()
    w = World(r)
    st = case['strategy']
    strategy = ('prefix', [tuple(x) for x in st[1]]) if st[0] == 'prefix' else tuple(st)
    w.run(case['scenario'], strategy, case['seed'])
    w.D.unwatch_all()
    return r.result()
