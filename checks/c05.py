"""C05 - the update stream always reconstructs the node's parameter cache

monitor: offline history checker over (operation log of 1..3 actor threads, messages delivered to the
activated connections), executed under the deterministic scheduler (vlib.detsched) with a ticking
virtual clock; schedules: sequential, random walk, PCT and bounded-preemption enumeration."""
import json
import zlib
import random

from vlib import rec

ID = 'C05'
LEVEL = 'exploration'
PROVISION = False      # frappy is imported by vlib.shimimport inside the shard
RULE = ('histories of {read ok / same value / raising SECoP error (new or identical text) / raising arbitrary exception / '
        'returning an invalid value, write, dispatcher read and change, assignment of equal or different values, explicit '
        'error announcement, virtual sleeps shorter and longer than the window} on parameters of several datatypes, '
        'omit_unchanged_within in {0, 0.1, 10}, update_unchanged in {always, never, default, number}; 1 actor (exact '
        'model) or 2..3 actor threads under seq / rw / pct / pb(2) schedules with LINE yield points inside the funnel. '
        'distinct = schedule signatures x history shape; non-trivial = history with an error, a recovery or >= 2 actors '
        'with at least one preemption')
ASSUMPTIONS = ['values written are unique tokens, so a message identifies the operation it stems from',
               'the ticking virtual clock makes funnel time stamps strictly increasing in critical-section order',
               'suppression is permitted, not required: only unjustified silence is a violation; extra messages restating the current state are accepted',
               'preemption happens only at yield points (shim operations, harness boundaries, LINE events of the listed functions)']
REQUIRED = ['histories', 'multi_actor_histories', 'messages_checked', 'clause_replay', 'clause_no_invention', 'clause_order',
            'clause_silence', 'clause_recovery', 'preempted_histories', 'pb_runs', 'driver_buffer_histories', 'driver_buffer_refills']

N = {'quick': 220, 'thorough': 20000}
DEFAULT_OMIT = 0.25


def plan(tier, seed, scale=1.0):
    return [{'idx': i, 'n': max(1, int(N[tier] * scale)), 'provision': False, 'pb_budget': 6 if tier == 'quick' else 120} for i in range(16)]


class World:
    def __init__(self, r):
        from vlib import shimimport, detsched
        shimimport.load()
        self.D = detsched
        from vlib import nodes, env
        import frappy.core as C
        import frappy.errors as E
        import frappy.modulebase as MB
        import frappy.protocol.dispatcher as DP
        import frappy.params as P
        self.r, self.nodes, self.env, self.C, self.E = r, nodes, env, C, E
        self.watch = [MB.Module.announceUpdate, DP.Dispatcher.broadcast_event, DP.make_update, DP.Dispatcher.announce_update, P.Parameter.__set__,
                      DP.Dispatcher.handle_activate]
        self.MB = MB
        self.shim_ok = shimimport.verify()

    # ---------------------------------------------------------------- node under test
    def build(self, omit, upd):
        C = self.C
        script = {}
        self.env.set_config(omit_unchanged_within=DEFAULT_OMIT)
        kw = {} if upd == 'default' else {'update_unchanged': upd}

        class M(C.Readable):
            x = C.Parameter('int', C.IntRange(0, 10 ** 12), readonly=False, default=0, **kw)
            s = C.Parameter('string', C.StringType(), readonly=False, default='', **kw)
            a = C.Parameter('array', C.ArrayOf(C.FloatRange(), 0, 3), readonly=False, default=(), **kw)
            omit_unchanged_within = omit

            def read_value(self):
                return 0

        for pn in ('x', 's', 'a'):
            def rd(self, _p=pn):
                act = script.pop((_p, D_ident()), None)
                if act is None:
                    return self.parameters[_p].value
                if isinstance(act, BaseException):
                    raise act
                return act

            def wr(self, v, _p=pn):
                return v
            setattr(M, 'read_' + pn, rd)
            setattr(M, 'write_' + pn, wr)
        D = self.D

        def D_ident():
            t = D.CURRENT.me() if D.CURRENT else None
            return t.name if t else 'setup'
        # class must be re-created through type() so that the wrappers see read_/write_
        M2 = type('M5', (M,), {'read_x': M.read_x, 'write_x': M.write_x, 'read_s': M.read_s, 'write_s': M.write_s,
                                'read_a': M.read_a, 'write_a': M.write_a, '__module__': __name__})
        node = self.nodes.Node({'m': {'cls': M2, 'description': 'x'}}).build()
        # other module code listens to the parameters (Module.addCallback / registerCallbacks) - and such a listener may
        # fail: a one-argument function is called with (value, error) for error announcements (TypeError) and this one
        # also refuses some values.  A failing listener must not keep the update from the connections.
        import frappy.errors as E_
        self.const_err = {pn: E_.HardwareError('constant') for pn in ('x', 's', 'a')}      # one stored error object per read method
        mobj = node.secnode.modules['m']
        self.listener_failures = fails = [0]

        def listener(value):
            if zlib.crc32(repr(value).encode()) % 3 == 0:
                fails[0] += 1
                raise ValueError('listener can not handle this value')
        for pn in ('x', 's'):
            mobj.addCallback(pn, listener)
        wrapped = type(node.secnode.modules['m'])
        n = self.D.watch_lines(*self.watch, wrapped.read_x, wrapped.write_x)
        self.r.maximum('line_watched_code_objects', n)
        return node, script, D_ident

    @staticmethod
    def token(pn, u):
        return u if pn == 'x' else f'tok{u}' if pn == 's' else (float(u),)

    @staticmethod
    def wire(pn, v):
        return v if pn != 'a' else list(v)

    # ---------------------------------------------------------------- one history
    def gen_history(self, rng, nactors):
        omit = rng.choice([0, 0.1, 10, None])
        upd = rng.choice(['default', 'default', 'always', 'never', 0.5])
        plan_ = []
        u = 0
        for a in range(nactors):
            ops = []
            for _ in range(rng.randint(3, 6) if nactors > 1 else rng.randint(6, 14)):
                u += 1
                ops.append([rng.choice(['read_ok', 'read_same', 'read_err', 'read_sameerr', 'read_const_err', 'read_exc', 'read_invalid', 'write', 'assign',
                                        'assign_same', 'announce_err', 'announce_sameerr', 'wire_read', 'wire_change', 'sleep_short', 'sleep_long']),
                            rng.choice(['x', 'x', 's', 'a']), u * 10 + a])
            plan_.append(ops)
        return {'omit': omit, 'update_unchanged': upd, 'actors': nactors, 'plan': plan_}

    def run_history(self, rng, nactors, strategy, seed, hist=None):
        r, D, E = self.r, self.D, self.E
        hist = hist or self.gen_history(rng, nactors)
        omit, upd, plan_, nactors = hist['omit'], hist['update_unchanged'], hist['plan'], hist['actors']
        node, script, ident = self.build(omit, upd)
        m = node.secnode.modules['m']
        eff = {pn: m.parameters[pn].omit_unchanged_within for pn in ('x', 's', 'a')}
        # the window in force is the configured one: the module's setting (0 = never leave an update out), the general default
        # where the module has none, or what update_unchanged says
        want_eff = {'default': DEFAULT_OMIT if omit is None else omit, 'always': 0, 'never': eff['x'] if eff['x'] >= 1e8 else 'huge'}.get(upd, upd)
        r.count('omit_windows_checked')
        if any(abs(v - want_eff) > 1e-9 if isinstance(want_eff, (int, float)) else True for v in eff.values()):
            r.violation('C05/configured-omit-window-not-applied', f'omit_unchanged_within={omit!r} on the module (general default {DEFAULT_OMIT}), update_unchanged={upd!r}: '
                        f'the parameters use {eff}', {'omit': omit, 'update_unchanged': upd, 'kind': 'omit-window'})
            return None
        disp = node.dispatcher
        conns = {}
        oplog = []        # dict per op

        class Conn(self.nodes.Conn):
            def send_reply(self_inner, msg):
                s = D.CURRENT
                if s is not None and s.controlled():
                    s.yield_point('send_reply')
                    s.log('msg', self_inner.name, msg)
                self_inner.out.append(msg)

        def actor(a):
            s = D.CURRENT
            myconn = Conn(f'actor{a}')
            disp.add_connection(myconn)
            for kind, pn, u in plan_[a]:
                tok = self.token(pn, u)
                op = {'actor': a, 'kind': kind, 'param': pn, 'u': u}
                cur = m.parameters[pn]
                try:
                    if kind == 'sleep_short':
                        D.vsleep(0.01)
                        continue
                    if kind == 'sleep_long':
                        D.vsleep(20)
                        continue
                    if kind == 'read_ok':
                        script[(pn, ident())] = tok
                        op['offer'] = ('val', self.wire(pn, tok))
                    elif kind == 'read_same':
                        v = cur.value
                        script[(pn, ident())] = v
                        op['offer'] = ('val', self.wire(pn, v))
                        op['racy'] = True
                    elif kind == 'read_err':
                        if u % 3 == 0:
                            # an instrument error code beside the text (several arguments, not all of them texts)
                            script[(pn, ident())] = E.HardwareError(-100 - u, f'hw{u}')
                            op['offer'] = ('err', 'HardwareError', repr((-100 - u, f'hw{u}')))
                        else:
                            script[(pn, ident())] = E.HardwareError(f'hw{u}')
                            op['offer'] = ('err', 'HardwareError', f'hw{u}')
                    elif kind == 'read_sameerr':
                        script[(pn, ident())] = E.HardwareError('same')
                        op['offer'] = ('err', 'HardwareError', 'same')
                    elif kind == 'read_const_err':
                        # the driver raises one and the same exception OBJECT each time (a module level constant)
                        script[(pn, ident())] = self.const_err[pn]
                        op['offer'] = ('err', 'HardwareError', 'constant')
                    elif kind == 'read_exc':
                        script[(pn, ident())] = ZeroDivisionError(f'z{u}')
                        op['offer'] = ('err', 'InternalError', None)
                    elif kind == 'read_invalid':
                        script[(pn, ident())] = {'not': 'valid'} if pn != 's' else 12345
                        op['offer'] = ('err', 'WrongType', None)
                    elif kind in ('write', 'wire_change', 'assign'):
                        op['offer'] = ('val', self.wire(pn, tok))
                    elif kind == 'assign_same':
                        op['offer'] = ('val', self.wire(pn, cur.value))
                        op['racy'] = True
                    elif kind == 'announce_err':
                        op['offer'] = ('err', 'RangeError', f'r{u}')
                    elif kind == 'announce_sameerr':
                        op['offer'] = ('err', 'RangeError', 'same range error')
                    elif kind == 'wire_read':
                        script.pop((pn, ident()), None)
                        op['offer'] = ('val', self.wire(pn, cur.value))
                        op['racy'] = True
                    op['call'] = len(s.events)
                    op['t_call'] = s.now
                    s.log('call', a, kind, pn, u)
                    oplog.append(op)
                    if kind.startswith('read_'):
                        getattr(m, 'read_' + pn)()
                    elif kind == 'write':
                        getattr(m, 'write_' + pn)(tok)
                    elif kind == 'assign':
                        setattr(m, pn, tok)
                    elif kind == 'assign_same':
                        setattr(m, pn, cur.value)
                    elif kind == 'announce_err':
                        m.announceUpdate(pn, None, E.RangeError(f'r{u}'))
                    elif kind == 'announce_sameerr':
                        m.announceUpdate(pn, None, E.RangeError('same range error'))
                    elif kind == 'wire_read':
                        disp.handle_request(myconn, ('read', f'm:_{pn}', None))
                    elif kind == 'wire_change':
                        disp.handle_request(myconn, ('change', f'm:_{pn}', self.wire(pn, tok)))
                except Exception as e:
                    op['raised'] = type(e).__name__
                finally:
                    if 'call' in op:
                        op['ret'] = len(s.events)
                        op['t_ret'] = s.now
                        s.log('ret', a, kind, pn, u)

        def root():
            obs = Conn('obs')
            mobs = Conn('modobs')
            idle = Conn('idle')
            conns.update(obs=obs, modobs=mobs, idle=idle)
            for c in (obs, mobs, idle):
                disp.add_connection(c)
            disp.handle_request(obs, ('activate', None, None))
            disp.handle_request(mobs, ('activate', 'm', None))
            if nactors == 1:
                actor(0)
            else:
                ths = [D.CoThread(target=actor, args=(a,), name=f'actor{a}') for a in range(nactors)]

                def late_observer():
                    # a connection that activates while the actors are at work: its stream (snapshot + updates)
                    # must reconstruct the cache as well
                    late = Conn('late')
                    conns['late'] = late
                    disp.add_connection(late)
                    disp.handle_request(late, ('activate', None, None))
                ths.append(D.CoThread(target=late_observer, name='late-observer'))
                for t in ths:
                    t.start()
                for t in ths:
                    t.join()
        s = D.Sched(strategy, seed, horizon=400, max_steps=150000)
        s.run(root, wall_timeout=60)
        case = {'omit': omit, 'update_unchanged': upd, 'actors': nactors, 'strategy': list(strategy) if strategy[0] != 'prefix' else ['prefix', strategy[1]],
                'seed': seed, 'plan': plan_}
        r.count('histories')
        if nactors > 1:
            r.count('multi_actor_histories')
            if s.npreempt:
                r.count('preempted_histories')
        if s.status != 'ok':
            if s.status in ('watchdog', 'budget'):
                r.inconclusive.append(f'scheduler run ended with {s.status}')
            else:
                r.violation(f'C05/run-{s.status}', f'threads stuck: {s.alive}', case)
            return s
        if s.escaped:
            r.violation('C05/exception-escapes-thread', f'{s.escaped[0][:2]}', dict(case, traceback=s.escaped[0][2]))
            return s
        kinds = {op['kind'] for op in oplog}
        nontrivial = bool(kinds & {'read_err', 'read_exc', 'read_invalid', 'announce_err', 'read_sameerr', 'announce_sameerr', 'read_const_err'}) or (nactors > 1 and s.npreempt > 0)
        r.case((nactors, strategy[0], s.signature(), tuple(sorted(kinds))), nontrivial)
        if r.want_sample() and nactors > 1 and s.npreempt:
            r.sample({'actors': nactors, 'strategy': strategy[0], 'preemptions': s.npreempt, 'ops': [[o['actor'], o['kind'], o['param']] for o in oplog][:10],
                      'messages': [e[5][:2] for e in s.events if e[3] == 'msg' and e[4] == 'obs'][:8]})
        self.judge(s, m, conns, oplog, eff, case, nactors)
        return s

    # ---------------------------------------------------------------- the offline checker
    def judge(self, s, m, conns, oplog, eff, case, nactors):
        r = self.r
        if conns['idle'].out:
            r.violation('C05/message-to-inactive-connection', repr(conns['idle'].out[0])[:200], case)
            return
        msgs = {c: [e for e in s.events if e[3] == 'msg' and e[4] == c] for c in ('obs', 'modobs')}
        if 'late' in conns:
            # the late observer: replay clause only (its first messages are the snapshot of an activation in mid-history)
            for pn in ('x', 's', 'a'):
                seq = [e[5] for e in s.events if e[3] == 'msg' and e[4] == 'late' and e[5][0] in ('update', 'error_update') and e[5][1] == f'm:_{pn}']
                pobj = m.parameters[pn]
                r.count('clause_replay_late_observer')
                if not seq:
                    r.violation('C05/no-initial-update', f'late observer got no update for {pn}', case)
                    return
                last = seq[-1]
                final = ('err', pobj.readerror.name, safe_str(pobj.readerror)) if pobj.readerror else ('val', json.loads(json.dumps(pobj.export_value())))
                got = ('err', last[2][0], last[2][1]) if last[0] == 'error_update' else ('val', last[2][0])
                if got != final:
                    r.violation('C05/replay-differs-from-cache/late-observer', f'late/{pn}: last message {got}, cache {final}', dict(case, param=pn))
                    return
        for cname in ('obs', 'modobs'):
            per = {}
            for e in msgs[cname]:
                msg = e[5]
                if msg[0] not in ('update', 'error_update'):
                    continue
                per.setdefault(msg[1], []).append((e[0], msg))
            for pn in ('x', 's', 'a'):
                seq = per.get(f'm:_{pn}', [])
                pobj = m.parameters[pn]
                r.count('messages_checked', len(seq))
                # (1) replay: the last message equals the cache
                r.count('clause_replay')
                if not seq:
                    r.violation('C05/no-initial-update', f'{cname} got no update for {pn}', case)
                    return
                last = seq[-1][1]
                if pobj.readerror:
                    final = ('err', pobj.readerror.name, safe_str(pobj.readerror))
                else:
                    final = ('val', json.loads(json.dumps(pobj.export_value())))
                got = ('err', last[2][0], last[2][1]) if last[0] == 'error_update' else ('val', last[2][0])
                if got != final:
                    r.violation('C05/replay-differs-from-cache', f'{cname}/{pn}: last message {got}, cache {final}', dict(case, param=pn))
                    return
                # the cache entry has a time stamp too (a connection activating now would be told it): what the stream says last
                # is what the cache holds - an announcement that is left out changes nothing in the cache
                r.count('clause_replay_timestamp')
                t_last = last[2][-1].get('t') if isinstance(last[2][-1], dict) else None
                if pobj.timestamp and t_last is not None and abs(t_last - pobj.timestamp) > 1e-9:
                    what = 'error' if pobj.readerror else 'value'
                    r.violation(f'C05/replay-differs-from-cache/timestamp-of-the-{what}', f'{cname}/{pn}: the last message carries t={t_last!r}, the cache entry t={pobj.timestamp!r}',
                                dict(case, param=pn))
                    return
                # (3) order: time stamps never decrease
                r.count('clause_order')
                ts = [mm[2][-1].get('t', 0) for _, mm in seq]
                if any(b < a for a, b in zip(ts, ts[1:])):
                    r.violation('C05/timestamps-go-backwards', f'{cname}/{pn}: {ts[:8]}', dict(case, param=pn))
                    return
                # (2) no invention + per-thread program order
                r.count('clause_no_invention')
                offered = {}
                for op in oplog:
                    if op['param'] == pn and 'offer' in op:
                        o = op['offer']
                        offered.setdefault(json.dumps(o[:2] if o[0] == 'err' else o, sort_keys=True), []).append(op)
                progress = {}
                racy = [op for op in oplog if op['param'] == pn and op.get('racy')]
                prevkey = None
                for idx, mm in seq:
                    key = json.dumps(('err', mm[2][0]) if mm[0] == 'error_update' else ('val', mm[2][0]), sort_keys=True)
                    if prevkey is None:
                        prevkey = key        # the snapshot sent by activate
                        continue
                    restated, prevkey = key == prevkey, key
                    seen_before = mm[0] == 'update' and any(m2[0] == 'update' and m2[2][0] == mm[2][0] for i2, m2 in seq if i2 < idx)
                    if (restated or seen_before) and any(op['call'] <= idx <= op.get('ret', 10 ** 9) for op in racy):
                        continue             # a read / equal assignment re-announcing a value the cache holds or held (the value survives an error)
                    ops = offered.get(key)
                    if not ops:
                        r.violation('C05/message-carries-state-never-offered', f'{cname}/{pn}: {mm!r}'[:200], dict(case, param=pn))
                        return
                    live = [op for op in ops if op['call'] <= idx <= op.get('ret', 10 ** 9)]
                    if not live:
                        r.violation('C05/message-outside-its-operation', f'{cname}/{pn}: message at {idx} carries a state offered only by operations '
                                    f'spanning {[(op["call"], op.get("ret")) for op in ops][:3]}', dict(case, param=pn))
                        return
                    if len(ops) == 1 and not ops[0].get('racy'):
                        a = ops[0]['actor']
                        if progress.get(a, -1) > ops[0]['call']:
                            r.violation('C05/program-order-violated', f'{cname}/{pn}: actor {a}', dict(case, param=pn))
                            return
                        progress[a] = ops[0]['call']
            # connections see the same stream
        a = [mm for _, mm in sorted((e[0], e[5]) for e in msgs['obs'] if e[5][0] in ('update', 'error_update'))]
        b = [mm for _, mm in sorted((e[0], e[5]) for e in msgs['modobs'] if e[5][0] in ('update', 'error_update'))]
        if [x for x in a if x[1].startswith('m:')] != b:
            r.violation('C05/connections-see-different-streams', f'{len(a)} vs {len(b)} messages', case)
            return
        # (4)/(5) silence must be justified
        stream = [(e[0], e[1], e[5]) for e in msgs['obs'] if e[5][0] in ('update', 'error_update')]
        for op in oplog:
            if 'offer' not in op or 'ret' not in op:
                continue
            pn = op['param']
            ident = f'm:_{pn}'
            mine = [x for x in stream if x[2][1] == ident and op['call'] <= x[0] <= op['ret']]
            o = op['offer']

            def matches(mm):
                if o[0] == 'err':
                    return mm[0] == 'error_update' and mm[2][0] == o[1] and (o[2] is None or mm[2][1] == o[2])
                return mm[0] == 'update' and mm[2][0] == o[1]
            if any(matches(x[2]) for x in mine):
                continue
            if op['kind'] in ('wire_read', 'read_same') and nactors > 1:
                continue       # offered value was sampled racily by the harness
            # silent: justified only if the state offered equals the state current at some point of the interval
            r.count('clause_silence')
            before = [x for x in stream if x[2][1] == ident and x[0] < op['call']]
            during = [x for x in stream if x[2][1] == ident and op['call'] <= x[0] <= op['ret']]
            states = ([before[-1]] if before else []) + during
            ok = False
            for idx, t, mm in states:
                if o[0] == 'err':
                    if mm[0] == 'error_update' and mm[2][0] == o[1] and (o[2] is None or mm[2][1] == o[2]):
                        ok = True
                elif mm[0] == 'update' and mm[2][0] == o[1]:
                    # equal value: only inside the window counted from the message's time stamp
                    tm = mm[2][-1].get('t', 0)
                    if op['t_call'] < tm + eff[pn] + 1e-3:
                        ok = True
            if o[0] == 'val' and states and states[-1][2][0] == 'error_update' and not during:
                r.count('clause_recovery')
                r.violation('C05/recovery-not-announced', f'{op["kind"]} on {pn} offered {o[1]!r} while the cache held an error: no message', dict(case, param=pn, op=op['kind']))
                return
            if o[0] == 'val':
                r.count('clause_recovery')
            if not ok:
                what = 'error' if o[0] == 'err' else 'value'
                r.violation(f'C05/unjustified-silence/{what}/{op["kind"]}', f'{op["kind"]} on {pn} offered {o[1:]} but no message and no equal current state '
                            f'(window {eff[pn]})', dict(case, param=pn, op=op['kind']))
                return


SPECIAL = [1.5, float('nan'), float('nan'), 2.0, float('inf'), float('-inf'), 0.0, -0.0, 1.5, 1e308, 5e-324,
           # neighbours closer than the resolution of the datatype: different values all the same
           100.0, 100.000003, 100.000006, 100.000003, 100.0, 1e-300, 1.0000001e-300]


def safe_str(e):
    """the text of a cached error; an error whose text can not be made is an observation, not a harness failure"""
    try:
        return str(e)
    except Exception as x:
        return f'<str() of the cached error raises {type(x).__name__}>'


def same_float(a, b):
    return (a != a and b != b) or a == b


def run_special_floats(w, r, rng, hist=None):
    """values a float parameter may hold that do not compare like ordinary numbers (NaN is unequal to itself, the two zeros
    are equal): single actor, exact model - after every operation the last message an activated connection holds for
    the parameter carries the value in the cache (both NaN, or equal), whatever the omit settings are"""
    import math
    C, D = w.C, w.D
    if hist is None:
        hist = {'omit': rng.choice([0, 0.1, 10, None]), 'update_unchanged': rng.choice(['default', 'always', 'never', 0.5]),
                'ops': [[rng.choice(['read', 'read', 'assign', 'sleep_short', 'sleep_long']), rng.randrange(len(SPECIAL))] for _ in range(rng.randint(4, 12))]}
    case = {'kind': 'special-floats', 'hist': hist}
    w.env.set_config(omit_unchanged_within=DEFAULT_OMIT)
    kw = {} if hist['update_unchanged'] == 'default' else {'update_unchanged': hist['update_unchanged']}
    hwv = [1.0]

    class F(C.Readable):
        f = C.Parameter('float', C.FloatRange(), readonly=False, default=1.0, **kw)
        omit_unchanged_within = hist['omit']

        def read_value(self):
            return 0

        def read_f(self):
            return hwv[0]
    node = w.nodes.Node({'m': {'cls': F, 'description': 'x'}}).build()
    m = node.secnode.modules['m']
    disp = node.dispatcher
    problems = []

    def root():
        obs = w.nodes.Conn('obs')
        disp.add_connection(obs)
        disp.handle_request(obs, ('activate', None, None))
        for i, (kind, vi) in enumerate(hist['ops']):
            v = SPECIAL[vi]
            if kind == 'sleep_short':
                D.vsleep(0.01)
                continue
            if kind == 'sleep_long':
                D.vsleep(20)
                continue
            if kind == 'read':
                hwv[0] = v
                m.read_f()
            else:
                m.f = v
            r.count('special_float_operations')
            if v != v:
                r.count('special_float_nan_operations')
            pobj = m.parameters['f']
            seq = [x for x in obs.out if x[0] in ('update', 'error_update') and x[1] == 'm:_f']
            if pobj.readerror or not seq or seq[-1][0] != 'update':
                problems.append((i, 'unexpected-error', f'{kind} {v!r}: readerror {pobj.readerror!r}, last message {seq[-1:]!r}'))
                return
            if not same_float(seq[-1][2][0], pobj.value):
                what = 'nan' if pobj.value != pobj.value or seq[-1][2][0] != seq[-1][2][0] else 'number'
                problems.append((i, f'replay-differs-from-cache/special-float/{what}', f'after op {i} ({kind} {v!r}): last message {seq[-1][2][0]!r}, cache {pobj.value!r}'))
                return
    s = D.Sched(('seq',), 0, horizon=2000, max_steps=150000)
    s.run(root, wall_timeout=60)
    r.count('special_float_histories')
    r.case(('special-floats', hist['omit'], str(hist['update_unchanged']), tuple(k for k, _ in hist['ops'])[:6]), True)
    if s.status != 'ok' or s.escaped:
        r.violation('C05/special-floats/run-' + (s.status if s.status != 'ok' else 'exception-escapes'), f'{s.escaped[:1]}'[:300], case)
        return
    if problems:
        r.violation('C05/' + problems[0][1], problems[0][2], case)


def run_driver_buffers(w, r, rng, hist=None):
    """drivers that keep ONE mutable object per parameter (a receive buffer, a list, a dict), hand it over again and again
    and refill it in place: whatever the node does with such an object (take a copy, refuse it), after every operation the
    last message an activated connection holds for the parameter says what the cache says - a refill of the driver's
    buffer alone changes neither"""
    import json as json_
    C, D = w.C, w.D
    KINDS = ['blob', 'blob_bytes', 'arr', 'st', 'tp']
    if hist is None:
        hist = {'omit': rng.choice([0, 0.1, 10, None]), 'update_unchanged': rng.choice(['default', 'always', 'never', 0.5]),
                'ops': [[rng.choice(['read', 'read', 'fill', 'fill', 'assign', 'sleep_short', 'sleep_long']), rng.choice(KINDS)]
                        for _ in range(rng.randint(5, 14))]}
    case = {'kind': 'driver-buffers', 'hist': hist}
    w.env.set_config(omit_unchanged_within=DEFAULT_OMIT)
    kw = {} if hist['update_unchanged'] == 'default' else {'update_unchanged': hist['update_unchanged']}
    bufs = {'blob': bytearray(b'\x00\x01'), 'blob_bytes': [b'\x00'], 'arr': [0.0, 1.0], 'st': {'a': 0.0, 'n': 0}, 'tp': [0, [0, 1]]}
    counter = [0]

    def fill(k):
        counter[0] += 1
        u = counter[0]
        if k == 'blob':
            bufs[k][:] = bytes([u % 256, (u * 7) % 256, 3][:1 + u % 3])
        elif k == 'blob_bytes':
            bufs[k][0] = bytes([u % 256, 5])            # control: a new immutable object each time
        elif k == 'arr':
            bufs[k][:] = [float(u)] * (1 + u % 3)
        elif k == 'st':
            bufs[k]['a'] = float(u)
            bufs[k]['n'] = u
        else:
            bufs[k][0] = u
            bufs[k][1][:] = [u] * (u % 3)

    def current(k):
        return bufs[k][0] if k == 'blob_bytes' else bufs[k]

    class B(C.Readable):
        blob = C.Parameter('blob', C.BLOBType(0, 16), readonly=False, default=b'', **kw)
        blob_bytes = C.Parameter('blob', C.BLOBType(0, 16), readonly=False, default=b'', **kw)
        arr = C.Parameter('array', C.ArrayOf(C.FloatRange(), 0, 4), readonly=False, default=(), **kw)
        st = C.Parameter('struct', C.StructOf(a=C.FloatRange(), n=C.IntRange()), readonly=False, default={'a': 0.0, 'n': 0}, **kw)
        tp = C.Parameter('tuple', C.TupleOf(C.IntRange(), C.ArrayOf(C.IntRange(), 0, 3)), readonly=False, default=(0, ()), **kw)
        omit_unchanged_within = hist['omit']

        def read_value(self):
            return 0

        def read_blob(self):
            return current('blob')

        def read_blob_bytes(self):
            return current('blob_bytes')

        def read_arr(self):
            return current('arr')

        def read_st(self):
            return current('st')

        def read_tp(self):
            return current('tp')
    node = w.nodes.Node({'m': {'cls': B, 'description': 'x'}}).build()
    m = node.secnode.modules['m']
    disp = node.dispatcher
    problems = []

    def root():
        obs = w.nodes.Conn('obs')
        disp.add_connection(obs)
        disp.handle_request(obs, ('activate', None, None))
        for i, (kind, k) in enumerate(hist['ops']):
            if kind == 'sleep_short':
                D.vsleep(0.01)
                continue
            if kind == 'sleep_long':
                D.vsleep(20)
                continue
            try:
                if kind == 'fill':
                    fill(k)
                elif kind == 'read':
                    getattr(m, 'read_' + k)()
                else:
                    setattr(m, k, current(k))
                outcome = 'ok'
            except Exception as e:
                outcome = type(e).__name__
            r.count('driver_buffer_operations')
            r.count('driver_buffer_refills' if kind == 'fill' else 'driver_buffer_handovers' + ('_refused' if outcome != 'ok' else ''))
            for pn in KINDS:
                pobj = m.parameters[pn]
                seq = [x for x in obs.out if x[0] in ('update', 'error_update') and x[1] == f'm:_{pn}']
                if not seq:
                    problems.append((i, 'driver-buffer/no-message', f'{pn}: nothing at all after activate'))
                    return
                last = seq[-1]
                if (last[0] == 'error_update') != bool(pobj.readerror):
                    problems.append((i, f'replay-differs-from-cache/driver-buffer/error-state/{pn}',
                                     f'after op {i} ({kind} {k} -> {outcome}): last message {last[0]}, cache error {pobj.readerror!r}'))
                    return
                if pobj.readerror:
                    continue
                try:
                    cached = json_.loads(json_.dumps(pobj.datatype.export_value(pobj.value)))
                except Exception as e:
                    problems.append((i, f'driver-buffer/cache-not-exportable/{pn}', f'{type(e).__name__}: {e}'))
                    return
                if json_.loads(json_.dumps(last[2][0])) != cached:
                    problems.append((i, f'replay-differs-from-cache/driver-buffer/{"after-refill" if kind == "fill" else "after-handover"}/{pn}',
                                     f'after op {i} ({kind} {k} -> {outcome}): last message {last[2][0]!r}, cache {cached!r}'))
                    return
    s = D.Sched(('seq',), 0, horizon=2000, max_steps=150000)
    s.run(root, wall_timeout=60)
    r.count('driver_buffer_histories')
    r.case(('driver-buffers', hist['omit'], str(hist['update_unchanged']), tuple(tuple(o) for o in hist['ops'])[:5]), True)
    if s.status != 'ok' or s.escaped:
        r.violation('C05/driver-buffers/run-' + (s.status if s.status != 'ok' else 'exception-escapes'), f'{s.escaped[:1]}'[:300], case)
        return
    if problems:
        r.violation('C05/' + problems[0][1], problems[0][2], case)


def run_shard(shard):
    r = rec.Recorder(shard)
    rng = random.Random(f'C05/{shard["seed"]}/{shard["idx"]}')
    w = World(r)
    if not all(w.shim_ok.values()):
        r.inconclusive.append(f'shim binding incomplete: {w.shim_ok}')
        return r.result()
    n = shard['n']
    for i in range(n):
        q = i % 4
        seed = rng.randrange(1 << 30)
        if q == 0:
            w.run_history(rng, 1, ('seq',), seed)
        elif q == 1:
            w.run_history(rng, rng.choice([2, 3]), ('rw', rng.choice([0.05, 0.2, 0.5])), seed)
        elif q == 2:
            w.run_history(rng, rng.choice([2, 3]), ('pct', rng.choice([2, 3, 4]), 400), seed)
        else:
            w.run_history(rng, 2, ('rw', 0.3), seed)
    for i in range(max(10, n // 4)):
        run_special_floats(w, r, rng)
    for i in range(max(10, n // 4)):
        run_driver_buffers(w, r, rng)
    # bounded-preemption enumeration of one small scenario per shard
    import time
    t_end = time.time() + shard['pb_budget']
    state = random.getstate()
    sub = random.Random(f'C05/pb/{shard["seed"]}/{shard["idx"]}')
    pbhist = w.gen_history(sub, 2)
    stack = [[]]
    runs = 0
    complete = True
    while stack:
        if time.time() > t_end:
            complete = False
            break
        prefix = stack.pop()
        s = w.run_history(None, 2, ('prefix', prefix), 0, hist=pbhist)
        if s is None:
            break
        runs += 1
        if len(prefix) < 2 and s.status == 'ok':
            first = prefix[-1][0] + 1 if prefix else 0
            for i in range(first, len(s.choice_log)):
                for alt in s.choice_log[i]:
                    stack.append(prefix + [[i, alt]])
    r.count('pb_runs', runs)
    r.count('pb_complete' if complete else 'pb_truncated')
    w.D.unwatch_all()
    return r.result()


def replay(case):
    r = rec.Recorder()
    w = World(r)
    if case.get('kind') == 'special-floats':
        run_special_floats(w, r, None, hist=case['hist'])
        w.D.unwatch_all()
        return r.result()
    if case.get('kind') == 'driver-buffers':
        run_driver_buffers(w, r, None, hist=case['hist'])
        w.D.unwatch_all()
        return r.result()
    st = case['strategy']
    strategy = ('prefix', [tuple(x) for x in st[1]]) if st[0] == 'prefix' else tuple(st)
    w.run_history(None, case['actors'], strategy, case['seed'], hist=case)
    w.D.unwatch_all()
    return r.result()
