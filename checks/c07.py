"""C07 - one well-formed reply per request line, for any bytes and any chunking

monitor: output-stream oracle on the bytes the real TCPRequestHandler hands to a scripted socket, for
byte streams x segmentations; differential oracle across segmentations and against single-line runs."""
import contextlib
import io
import time
import itertools
import json
import random
import socket as _socket

from vlib import rec

ID = 'C07'
LEVEL = 'exploration'
RULE = ('request-line sequences from a grammar of valid SECoP requests over a small node, mutated at byte level '
        '(invalid UTF-8, broken JSON, missing/extra fields, CR/LF/CRLF, blank lines, long lines, unknown and '
        'handler-colliding actions, NaN/Infinity tokens) x segmentations (all 2^(n-1) for short streams, every single '
        'split point, random multi-splits incl. 1-byte drip, chunks > 1024 bytes). distinct = (line classes of the '
        'stream, segmentation class); non-trivial = stream contains a mutated/hostile line or is split inside a line')
ASSUMPTIONS = ['clock frozen (identical timestamps across runs); node state restored before every run',
               'SECoP error classes: the list of the SECoP 1.0 specification',
               'the scripted socket returns at most the requested number of bytes per recv and b"" at the scripted close']
REQUIRED = ['streams', 'runs', 'reply_lines_checked', 'segmentation_comparisons', 'alone_comparisons', 'codec_roundtrips',
            'exhaustive_short_streams']

N = {'quick': 120, 'thorough': 6000}

SECOP_ERRORS = {'ProtocolError', 'NoSuchModule', 'NoSuchParameter', 'NoSuchCommand', 'CommandFailed', 'CommandRunning',
                'ReadOnly', 'BadValue', 'WrongType', 'RangeError', 'BadJSON', 'NotImplemented', 'HardwareError',
                'CommunicationFailed', 'TimeoutError', 'IsBusy', 'IsError', 'Disabled', 'Impossible', 'ReadFailed',
                'OutOfRange', 'InternalError'}
REPLY = {'describe': 'describing', 'activate': 'active', 'deactivate': 'inactive', 'do': 'done', 'change': 'changed',
         'read': 'reply', 'ping': 'pong', 'help': 'helping', 'logging': 'logging'}
IDENT = 'ISSE&SINE2020,SECoP,V2019-09-16,v1.0'
ASYNC = {'update', 'error_update', 'log'}


def plan(tier, seed, scale=1.0):
    return [{'idx': i, 'n': int(N[tier] * scale)} for i in range(16)]


def strict_json(text):
    def bad(tok):
        raise ValueError('non-standard JSON token ' + tok)
    return json.loads(text, parse_constant=bad)


class FakeSock:
    def __init__(self, chunks):
        self.chunks = [c for c in chunks if c != b'']
        self.out = []
        self.closed = False

    def settimeout(self, t):
        pass

    dead = False       # the peer has reset the connection: every further write fails
    hold = None        # threading.Event: recv blocks on it when it meets the chunk 'HOLD' (the connection stays open)

    def recv(self, n):
        if not self.chunks:
            return b''
        c = self.chunks[0]
        if c == 'HOLD':
            self.chunks.pop(0)
            self.hold.wait(10)
            raise _socket.timeout()
        if c is None:
            self.chunks.pop(0)
            raise _socket.timeout()
        if len(c) > n:
            self.chunks[0] = c[n:]
            return c[:n]
        self.chunks.pop(0)
        return c

    PIECE = 700        # send() accepts at most this many bytes per call (a nearly full socket buffer)
    on_write = None    # hook: another thread of the node wants to send on this connection right now

    fail_at = None     # index of the write call that runs into the send time-out (the peer stopped reading)
    fail_part = 0.0    # fraction of that call's data that still went out
    nwrite = 0

    def _fault(self, b):
        self.nwrite += 1
        if self.dead:
            raise BrokenPipeError(32, 'Broken pipe')
        if self.fail_at is not None and self.nwrite - 1 == self.fail_at:
            self.out.append(bytes(b[:int(len(b) * self.fail_part)]))
            raise _socket.timeout('timed out')

    def sendall(self, b):
        self._fault(b)
        self.out.append(bytes(b))
        if self.on_write:
            self.on_write()

    def send(self, b):
        """like socket.send: may take only a part of the data and says how much"""
        self._fault(b)
        n = min(len(b), self.PIECE)
        self.out.append(bytes(b[:n]))
        if self.on_write:
            self.on_write()
        return n

    def shutdown(self, how):
        pass

    def close(self):
        self.closed = True


class World:
    def __init__(self, r):
        from vlib import env, nodes
        import frappy.modulebase as MB
        import frappy.protocol.dispatcher as DISP
        from frappy.core import Drivable, Readable, Parameter, Command, IntRange, StringType, FloatRange, StructOf, BoolType
        from frappy.protocol.interface.tcp import TCPRequestHandler
        from frappy.protocol import interface as IF
        self.r = r
        self.IF = IF
        self.Handler = TCPRequestHandler
        import time as _time
        shim = type('T', (), {'time': staticmethod(lambda: 1000.0), '__getattr__': lambda s, n: getattr(_time, n)})()
        MB.time = shim
        DISP.currenttime = lambda: 1000.0

        class Drv(Drivable):
            x = Parameter('x', IntRange(0, 10), readonly=False, default=1)
            s = Parameter('s', StringType(maxchars=20, isUTF8=True), readonly=False, default='')
            st = Parameter('st', StructOf(a=IntRange(0, 5), b=BoolType()), readonly=False, default={'a': 0, 'b': False})
            ro = Parameter('ro', FloatRange(), default=2.5)

            def read_value(self):
                return 1.0

            def write_target(self, v):
                return v

            @Command(IntRange(0, 5), result=IntRange())
            def twice(self, a):
                """twice"""
                return 2 * a

        class Rd(Readable):
            def read_value(self):
                return 3.0

        from frappy.errors import HardwareError, CommunicationFailedError

        class Er(Readable):
            """a driver whose errors carry other things than texts: an error code, a wrapped exception"""
            w = Parameter('w', FloatRange(), default=0)

            def read_value(self):
                raise HardwareError(17)

            def read_w(self):
                raise CommunicationFailedError(ValueError('inner'))

            # commands without a result type whose methods return something all the same (nothing JSON could carry)
            @Command()
            def state(self):
                """state"""
                return self.status

            @Command()
            def items(self):
                """items"""
                return {1, 2, object()}

        self.node = nodes.Node({'d': {'cls': Drv, 'description': 'drv'}, 'r': {'cls': Rd, 'description': 'rd'},
                                'e': {'cls': Er, 'description': 'failing reads'}}).build()
        self.log = self.node.log
        self.snap = {(mn, pn): (p.value, p.readerror, p.timestamp) for mn, m in self.node.secnode.modules.items()
                     for pn, p in m.parameters.items()}
        self.server = type('Srv', (), {})()
        self.server.dispatcher = self.node.dispatcher
        self.server.log = env.Log('iface')
        self.server.detailed_errors = False
        self.observer = nodes.Conn('observer')
        self.node.dispatcher.add_connection(self.observer)
        self.alone_cache = {}

    def restore(self):
        for (mn, pn), (v, e, t) in self.snap.items():
            p = self.node.secnode.modules[mn].parameters[pn]
            p.value, p.readerror, p.timestamp = v, e, t

    def run(self, chunks):
        """-> (output bytes, handler error records)"""
        self.restore()
        del self.server.log.records[:]
        del self.observer.out[:]
        fs = FakeSock(chunks)
        buf = io.StringIO()
        with contextlib.redirect_stdout(buf):
            self.Handler(fs, ('127.0.0.1', 5), self.server)
        self.r.count('runs')
        errs = [x for x in self.server.log.records if x[0] in ('error', 'exception', 'critical')]
        return b''.join(fs.out), errs, fs.chunks

    # ---------------------------------------------------------------- a peer that is gone, not yet noticed
    def run_dead_peer(self, rng):
        """an activated connection whose peer has reset it, before its handler has noticed: an update announced by a driver
        thread in that window must reach every other activated connection, and the announcing thread must not get an
        exception out of it (the dead connection is one of the listeners the dispatcher sends to)"""
        import threading
        from vlib import nodes
        r = self.r
        self.restore()
        del self.server.log.records[:]
        disp = self.server.dispatcher
        others = [nodes.Conn(f'other{i}') for i in range(rng.choice([1, 2, 4]))]
        for o in others:
            disp.add_connection(o)
            disp.handle_request(o, ('activate', None, None))
            del o.out[:]
        fs = FakeSock([b'activate\n', 'HOLD'])
        fs.hold = threading.Event()
        buf = io.StringIO()

        def serve():
            with contextlib.redirect_stdout(buf):
                self.Handler(fs, ('127.0.0.1', 8), self.server)
        t = threading.Thread(target=serve, daemon=True)
        t.start()
        ok = False
        for _ in range(400):
            if b'active\n' in b''.join(fs.out):
                ok = True
                break
            time.sleep(0.005)
        case = {'sub': 'dead-peer', 'others': len(others)}
        r.count('dead_peer_runs')
        r.case(('dead-peer', len(others)), True)
        problem = None
        try:
            if not ok:
                r.inconclusive.append('dead-peer phase: the activation of the TCP connection did not complete')
                return
            fs.dead = True
            mod = self.node.secnode.modules['d']
            value = float(rng.randint(2, 900))
            try:
                mod.announceUpdate('value', value)
            except BaseException as e:
                problem = ('C07/update-to-a-dead-connection-raises-in-the-announcing-thread', f'{type(e).__name__}: {e}')
            if problem is None:
                missed = [o.name for o in others if not any(m[0] == 'update' and m[1] == 'd:value' and m[2][0] == value for m in o.out)]
                if missed:
                    problem = ('C07/update-not-delivered-beside-a-dead-connection', f'{missed} did not get the update of d:value = {value}')
        finally:
            fs.hold.set()
            t.join(5)
            for o in others:
                disp.remove_connection(o)
        if t.is_alive():
            r.violation('C07/handler-does-not-end-after-its-peer-is-gone', 'the handler thread is still alive 5 s after its socket failed and closed', case)
            return
        if problem:
            r.violation(problem[0], problem[1][:300], case)

    # ---------------------------------------------------------------- the peer stops reading
    def run_send_timeout(self, rng):
        """a write on the socket runs into the send time-out (the peer does not read, the buffer is full) after a part of
        the data went out: whatever the node does then, the peer must never see anything but a prefix of the fault-free
        output - no reply left out, no line glued to a truncated one (differential oracle against the run without fault)"""
        r = self.r
        lines = [rng.choice(self.VALID) for _ in range(rng.randint(2, 7))] + [b'ping last']
        stream = b'\n'.join(lines) + b'\n'
        clean, errs, _ = self.run([stream])
        nwrites = max(1, clean.count(b'\n'))
        self.restore()
        del self.server.log.records[:]
        fs = FakeSock([stream])
        fs.fail_at = rng.randrange(nwrites)
        fs.fail_part = rng.choice([0.0, 0.0, 0.3, 0.9, 1.0])
        buf = io.StringIO()
        with contextlib.redirect_stdout(buf):
            self.Handler(fs, ('127.0.0.1', 7), self.server)
        out = b''.join(fs.out)
        r.count('send_timeout_runs')
        r.case(('send-timeout', len(lines), fs.fail_part), True)
        case = {'sub': 'send-timeout', 'stream': stream.decode('latin1'), 'fail_at': fs.fail_at, 'fail_part': fs.fail_part, 'output_tail': out[-200:].decode('latin1')}
        if fs.nwrite <= fs.fail_at:
            r.count('send_timeout_not_reached')
            return
        if not clean.startswith(out):
            r.violation('C07/output-continues-after-send-timeout', f'write {fs.fail_at} timed out after {fs.fail_part:.0%} of its data; the peer saw {len(out)} bytes '
                        f'that are not a prefix of the {len(clean)} bytes of the fault-free output', case)

    # ---------------------------------------------------------------- concurrent senders on one connection
    def run_concurrent_send(self, rng):
        """asynchronous messages never split another line: while the handler writes replies (among them the long
        'describing' line), another thread of the node - a poller announcing an update, a logger - calls send_reply of the
        same connection after every write on the socket (it may have to wait for the send lock: then it is let go on and
        joined at the end)"""
        import threading
        r = self.r
        self.restore()
        del self.server.log.records[:]
        lines = [b'activate', b'describe'] + [rng.choice(self.VALID) for _ in range(rng.randint(1, 4))] + [b'describe', b'ping last']
        stream = b'\n'.join(lines) + b'\n'
        fs = FakeSock([stream])
        disp = self.server.dispatcher
        pending = []
        state = {'busy': False, 'n': 0}

        def other_sender():
            for conn in list(getattr(disp, '_connections', [])):
                if getattr(conn, 'request', None) is fs:
                    state['n'] += 1
                    conn.send_reply(('update', 'd:value', [float(state['n']), {'t': 1.0}]))

        def on_write():
            if state['busy'] or state['n'] >= 40:
                return
            state['busy'] = True
            try:
                t = threading.Thread(target=other_sender)
                t.start()
                t.join(0.02)
                if t.is_alive():
                    pending.append(t)
            finally:
                state['busy'] = False
        fs.on_write = on_write
        buf = io.StringIO()
        with contextlib.redirect_stdout(buf):
            self.Handler(fs, ('127.0.0.1', 6), self.server)
        for t in pending:
            t.join(5)
        out = b''.join(fs.out)
        r.count('concurrent_send_runs')
        r.count('concurrent_messages_injected', state['n'])
        case = {'sub': 'concurrent-send', 'stream': stream.decode('latin1'), 'output_head': out[:300].decode('latin1')}
        r.case(('concurrent-send', len(lines)), True)
        errs = [x for x in self.server.log.records if x[0] in ('error', 'exception', 'critical')]
        if errs:
            r.violation('C07/handler-terminated-by-exception', f'(concurrent senders) {errs[0]}'[:300], case)
            return
        nrep = 0
        for ln in out.split(b'\n')[:-1]:
            try:
                text = ln.decode('utf-8')
                toks = text.split(' ', 2)
                if len(toks) > 2 and toks[2]:
                    strict_json(toks[2])
                if toks[0] == '_':
                    continue          # lines of the help text
                if toks[0] not in ASYNC:
                    nrep += 1
                elif toks[0] == 'update' and not (len(toks) == 3 and isinstance(json.loads(toks[2]), list)):
                    raise ValueError('malformed update')
            except Exception as e:
                r.violation('C07/line-split-by-another-message', f'with a second sender on the connection the output contains the malformed line {ln[:120]!r} ({type(e).__name__})', case)
                return
        if not out.endswith(b'\n') and out:
            r.violation('C07/line-split-by-another-message', 'the output does not end with a complete line', case)
            return
        if nrep != len(lines):
            r.violation('C07/reply-count', f'(concurrent senders) {nrep} replies for {len(lines)} request lines', case)

    # ---------------------------------------------------------------- grammar
    VALID = [b'*IDN?', b'describe', b'describe .', b'ping', b'ping tok1', b'read d', b'read d:value', b'read d:_x', b'read d:status',
             b'read r:value', b'read d:_ro', b'change d:_x 3', b'change d:_x 7', b'change d:target 2.5', b'change d 1', b'change d:_s "abc"',
             b'change d:_s "\\u00e4 \\"q\\""', b'change d:_st {"a": 2}', b'change d:_st {"a": 1, "b": true}', b'do d:_twice 2', b'do d:stop',
             b'activate', b'activate d', b'activate d:_x', b'deactivate', b'deactivate d', b'deactivate d:_x', b'help', b'',
             b'logging d "info"', b'logging . "off"', b'logging  "debug"', b'read d:pollinterval', b'change d:pollinterval 2',
             # reads that fail in the driver with an error carrying a number / a wrapped exception (repeated: the second failure
             # takes the 'same error again' path)
             b'read e:value', b'read e:value', b'read e', b'read e:_w', b'read e:_w', b'do e:_state', b'do e:_items']
    HOSTILE = [b'change d:_x "3"', b'change d:_x 3.5', b'change d:_x 11', b'change d:_x', b'change d:_x {bad', b'change d:_x [1', b'change d:_ro 1',
               b'read d:nosuch', b'read nosuch', b'read', b'read d:value extra', b'read d:value 1', b'change nosuch:x 1', b'do d:_twice "2"',
               b'do d:_twice 7', b'do d:_twice', b'do d:nosuch', b'do d', b'do', b'change', b'change d:_x NaN', b'change d:target NaN', b'change d:target NaN', b'read d:target', b'change d:target Infinity',
               b'change d:target -Infinity', b'change d:target 1e999', b'request a b', b'_ident', b'_ident x 1', b'help me', b'handle_read d',
               b'__init__', b'secnode', b'log', b'shutdown', b'restart', b'name', b'activate nosuch', b'activate d:nosuch', b'activate d 1',
               b'deactivate x 1', b'ping tok 1', b'ping  ', b'PING', b'Describe', b' describe', b'describe  ', b'\tping a', b'ping a\t',
               b'\xff\xfe foo', b'read d:\xe4', b'ch\xc3\xa4nge d 1', b'change d:_s "\xff"', b'change d:_s "\\ud800"', b'\x00', b'read\x00d',
               b'update d:value [1, {}]', b'error_read d ["X", "y", {}]', b'reply d:value [1,{}]', b'changed d:_x [1,{}]', b'active', b'pong',
               b'logging d "nolevel"', b'logging d 5', b'logging nosuch "info"', b'logging', b'change d:_st {"zz": 1}', b'change d:_st []',
               b'change d:_s ' + b'"' + b'x' * 3000 + b'"', b'ping ' + b'y' * 1500, b'z' * 2100, b'read d:value' + b' ' * 1200,
               b'describe x', b'describe d', b'*IDN? x', b'*idn?', b'change d:_x 3 4', b'change d:_x  3', b'do d:_twice  2',
               # JSON nested deeper than any parser stack: a decoding failure like every other
               b'change d:_x ' + b'[' * 6000, b'do d:_twice ' + b'[' * 3000 + b']' * 3000, b'ping tok ' + b'{"a":' * 4000,
               b'logging d ' + b'[' * 2500 + b'1' + b']' * 2500, b'change d:_st ' + b'{"a":[' * 2000]
    EOLS = [b'\n', b'\n', b'\n', b'\r\n', b'\n\n', b'\r', b' \n']

    def gen_stream(self, rng):
        lines = []
        classes = []
        for _ in range(rng.randint(1, 10)):
            q = rng.random()
            if q < 0.45:
                ln, cl = rng.choice(self.VALID), 'valid'
            elif q < 0.85:
                ln, cl = rng.choice(self.HOSTILE), 'hostile'
            else:
                base = bytearray(rng.choice(self.VALID + self.HOSTILE))
                for _ in range(rng.randint(1, 3)):
                    if base:
                        op = rng.random()
                        pos = rng.randrange(len(base))
                        if op < 0.4:
                            base[pos] = rng.randrange(256)
                        elif op < 0.7:
                            del base[pos]
                        else:
                            base.insert(pos, rng.choice(b' \t"{}[]\\\xc3\x00:'))
                ln, cl = bytes(base).replace(b'\n', b' '), 'mutated'
            lines.append(ln + rng.choice(self.EOLS))
            classes.append(cl)
        stream = b''.join(lines)
        if rng.random() < 0.3:
            stream += rng.choice([b'ping tail', b'read d', b'\xff', b'{'])
            classes.append('tail')
        return stream, tuple(classes)

    # ---------------------------------------------------------------- oracle on one output
    def request_lines(self, stream):
        """newline-terminated request lines as the framing must see them"""
        parts = stream.split(b'\n')
        return parts[:-1]

    def check_output(self, stream, out, errs, left, case):
        r = self.r
        if errs:
            r.violation('C07/handler-terminated-by-exception', f'handler logged {errs[0][2][:150]!r}', case)
            return False
        if left:
            r.violation('C07/handler-ended-before-close', f'{len(left)} scripted chunks were never read', case)
            return False
        if self.observer.out:
            r.violation('C07/leak-into-other-connection', f'a connection that is not activated received {self.observer.out[0]!r}'[:200], case)
            return False
        if out and not out.endswith(b'\n'):
            r.violation('C07/output/unterminated-line', repr(out[-60:]), case)
            return False
        replies = []
        helplines = 0
        reqs = self.request_lines(stream)
        for raw in out.split(b'\n')[:-1]:
            r.count('reply_lines_checked')
            try:
                line = raw.decode('utf-8')
            except UnicodeDecodeError:
                r.violation('C07/output/not-utf8', repr(raw[:80]), case)
                return False
            parts = line.split(' ', 2)
            action = parts[0]
            spec = parts[1] if len(parts) > 1 else ''
            data = None
            if len(parts) > 2:
                try:
                    data = strict_json(parts[2])
                except ValueError as e:
                    r.violation('C07/output/not-strict-json', f'{action}: {e}'[:150], dict(case, line=line[:200]))
                    return False
            nxt = reqs[len(replies)].strip().split(b' ')[0] if len(replies) < len(reqs) else None
            # 'update' / 'log' are never replies; 'error_update' is a reply only to a request line whose action is "update"
            is_async = action in ('update', 'log') or (action == 'error_update' and nxt != b'update')
            if is_async:
                if not self.activated(stream):
                    r.violation('C07/output/async-message-without-activation', line[:100], case)
                    return False
                continue
            if action == '_' and spec.isdigit():
                helplines += 1
                continue
            replies.append((action, spec, data, line))
        if len(replies) != len(reqs):
            r.violation('C07/reply-count', f'{len(reqs)} terminated request lines, {len(replies)} replies', dict(case, replies=[x[3][:60] for x in replies]))
            return False
        for req, (action, spec, data, line) in zip(reqs, replies):
            key = self.judge(req, action, spec, data, line)
            if key:
                r.violation(key, f'request {req[:80]!r} answered {line[:120]!r}', dict(case, request=req[:200].decode('latin1'), reply=line[:300]))
                return False
        return True

    @staticmethod
    def activated(stream):
        return b'activate' in stream or b'logging' in stream

    def judge(self, req, action, spec, data, line):
        """-> classification key of a violation or None"""
        stripped = req.strip()
        if stripped == b'':
            return None if action == 'helping' else 'C07/reply-mismatch/blank-line'
        try:
            text = stripped.decode('utf-8')
            toks = text.split(' ', 2)
            ract = toks[0]
            rspec = toks[1] if len(toks) > 1 else ''
            decodable = True
            if len(toks) > 2 and toks[2] != '':
                try:
                    json.loads(toks[2])
                except (ValueError, RecursionError):
                    decodable = False
        except UnicodeDecodeError:
            decodable = False
            toks = stripped.decode('latin-1').split(' ', 3)
            ract = toks[0]
            rspec = toks[1] if len(toks) > 1 else ''
        if action.startswith('error_'):
            if not (isinstance(data, list) and len(data) == 3 and isinstance(data[0], str) and isinstance(data[1], str) and isinstance(data[2], dict)):
                return 'C07/error-report-malformed'
            if data[0] not in SECOP_ERRORS:
                return f'C07/error-class-not-secop/{data[0]}'
            # the error path documents latin-1 decoding of the raw line: both decodings of the same bytes are accepted
            l1 = stripped.decode('latin-1').split(' ', 3)
            if action not in ('error_' + ract, 'error_' + l1[0]):
                return 'C07/error-reply-action-mismatch'
            if spec not in (rspec or '', l1[1] if len(l1) > 1 else ''):
                return 'C07/error-reply-specifier-not-echoed'
            return None
        if not decodable:
            return 'C07/undecodable-line-answered-normally'
        if ract == '*IDN?':
            return None if line == IDENT else 'C07/reply-mismatch/ident'
        if ract == 'help':
            return None if action == 'helping' else 'C07/reply-mismatch/help'
        want = REPLY.get(ract)
        if want is None:
            return f'C07/unknown-action-answered/{ract if ract in ("_ident", "request", "help") else "other"}'
        if action != want:
            return f'C07/reply-mismatch/{ract}'
        if ract == 'describe':   # SECoP: 'describing .'; 'describe <module>' (an extension) echoes the module
            return None if spec == (rspec if rspec not in ('', '.') else '.') else 'C07/reply-specifier/describe'
        if spec != rspec:
            # the node strips the decoded text: a specifier that consists of characters Python counts as white space
            # (\x1c-\x1f, \x85, \xa0 ... - not stripped from the raw bytes) is no specifier for it; accepted either way
            if spec == rspec.strip():
                return None
            return f'C07/reply-specifier-not-echoed/{ract}'
        return None

    # ---------------------------------------------------------------- per stream
    def segmentations(self, stream, rng, exhaustive):
        n = len(stream)
        if exhaustive:
            for mask in range(1 << (n - 1)):
                cuts = [i + 1 for i in range(n - 1) if mask >> i & 1]
                yield 'all', cuts
            return
        step = max(1, n // 40)
        for c in range(1, n, step):
            yield 'single', [c]
        for _ in range(6):
            k = rng.randint(2, min(12, max(2, n - 1)))
            yield 'multi', sorted(rng.sample(range(1, n), min(k, n - 1))) if n > 2 else []
        if n <= 400:
            yield 'drip', list(range(1, n))
        yield 'timeouts', None

    def run_stream(self, stream, classes, rng, exhaustive=False):
        r = self.r
        case = {'stream': stream[:4000].decode('latin1'), 'classes': list(classes)}
        ref, errs, left = self.run([stream])
        if not self.check_output(stream, ref, errs, left, dict(case, segmentation='none')):
            return
        nontrivial = any(c != 'valid' for c in classes)
        r.case((classes, 'none', len(stream) > 1024), nontrivial)
        if r.want_sample() and nontrivial:
            r.sample({'stream': stream[:300].decode('latin1'), 'output': ref[:400].decode('utf-8', 'replace')})
        for kind, cuts in self.segmentations(stream, rng, exhaustive):
            if cuts is None:
                pos = [0, len(stream) // 2, len(stream)]
                chunks = [stream[:pos[1]], None, None, stream[pos[1]:]]
            else:
                pos = [0] + cuts + [len(stream)]
                chunks = [stream[a:b] for a, b in zip(pos, pos[1:])]
            out, errs, left = self.run(chunks)
            r.count('segmentation_comparisons')
            r.evaluations += 1
            if out != ref or errs or left:
                r.violation('C07/segmentation-dependent-output', f'{kind} segmentation {cuts[:8] if cuts else "with timeouts"} changes the output',
                            dict(case, cuts=cuts, reference=ref[:600].decode('latin1'), output=out[:600].decode('latin1')))
                return
        r.case((classes, 'segmented'), True)
        # stateless lines: same reply alone
        reqs = self.request_lines(stream)
        replies = []
        for l in ref.split(b'\n')[:-1]:
            a = l.split(b' ')[0]
            nxt = reqs[len(replies)].strip().split(b' ')[0] if len(replies) < len(reqs) else None
            if a in (b'update', b'log') or (a == b'error_update' and nxt != b'update') or l.startswith(b'_ '):
                continue
            replies.append(l)
        for req, rep in zip(reqs, replies):
            if not self.stateless(req):
                continue
            alone = self.alone_cache.get(req)
            if alone is None:
                o, _, _ = self.run([req + b'\n'])
                alone = [l for l in o.split(b'\n')[:-1] if not l.startswith(b'_ ')]
                self.alone_cache[req] = alone
            r.count('alone_comparisons')
            if alone != [rep]:
                r.violation('C07/reply-depends-on-other-lines', f'{req[:60]!r}: alone {alone!r}, in stream {rep[:100]!r}'[:300], case)
                return

    def run_long_line(self, rng, size):
        """one very long request line between two ordinary ones: one reply per line, in order, whatever the length"""
        r = self.r
        nonce = bytes(rng.choice(b'abcdefghijklmnopqrstuvwxyz0123456789') for _ in range(64)) * (size // 64)
        stream = b'ping first\n' + b'ping ' + nonce + b'\nping last\n'
        case = {'stream': f'ping first / ping <{len(nonce)} bytes> / ping last', 'classes': ['long-line'], 'size': len(nonce)}
        ref, errs, left = self.run([stream])
        r.count('very_long_lines')
        r.case(('long-line', size), True)
        lines = ref.split(b'\n')[:-1]
        heads = [l[:40] for l in lines]
        if len(lines) != 3 or not lines[0].startswith(b'pong first') or not lines[2].startswith(b'pong last') or \
                not (lines[1].startswith(b'pong ' + nonce[:30]) or lines[1].startswith(b'error_ping ')):
            r.violation('C07/long-line/replies-do-not-match-the-lines', f'three request lines (the second {len(nonce)} bytes long) got {len(lines)} reply lines: {heads}', case)
            return
        half = len(stream) // 2
        out, errs2, left2 = self.run([stream[:half], stream[half:]])
        if out != ref:
            r.violation('C07/segmentation-dependent-output', f'long line of {len(nonce)} bytes cut in the middle: other output ({[l[:40] for l in out.split(bytes([10]))[:5]]})', case)

    @staticmethod
    def stateless(req):
        s = req.strip()
        first = s.split(b' ')[0]
        return first in (b'ping', b'describe', b'*IDN?', b'help', b'', b'request', b'_ident', b'PING', b'do') or not first.isalpha() \
            or first not in (b'read', b'change', b'activate', b'deactivate', b'logging')

    # ---------------------------------------------------------------- codec
    def run_codec(self, rng, n):
        r = self.r
        enc, dec = self.IF.encode_msg_frame, self.IF.decode_msg
        acts = ['read', 'change', 'update', 'error_change', 'pong', 'describing', 'do', 'x']
        specs = [None, 'm', 'm:p', 'mod:_par', '.', 'tok1']
        datas = [None, 0, 1.5, 'with space', '', [1, {'t': 2.5}], {'a': [1, 2]}, 'ä€', ['E', 'text with  two spaces', {}], True, [None], ' lead']
        for _ in range(n):
            t = (rng.choice(acts), rng.choice(specs), rng.choice(datas))
            r.count('codec_roundtrips')
            try:
                frame = enc(*t)
                back = dec(frame)
                again = enc(*back)
            except Exception as e:
                r.violation('C07/codec/raises', f'{t!r}: {type(e).__name__}', {'triple': list(t)})
                continue
            unambiguous = not (t[1] is None and t[2] is not None)   # data without specifier has no own frame position
            if unambiguous and tuple(back) != t:
                r.violation('C07/codec/decode-encode-differs', f'{t!r} -> {frame!r} -> {back!r}', {'triple': list(t)})
            if again != frame:
                r.violation('C07/codec/not-canonical', f'{frame!r} re-encodes as {again!r}', {'triple': list(t)})


SHORT = [b'ping x\nping\n', b'\n\n*IDN?\n', b'ping\r\n\nre', b'read d\n\xff\n', b'x\nhelp\nping a']


def run_shard(shard):
    r = rec.Recorder(shard)
    rng = random.Random(f'C07/{shard["seed"]}/{shard["idx"]}')
    w = World(r)
    for i in range(shard['n']):
        stream, classes = w.gen_stream(rng)
        w.run_stream(stream, classes, rng)
        r.count('streams')
    if shard['idx'] < len(SHORT):
        s = SHORT[shard['idx']]
        w.run_stream(s, ('short',), rng, exhaustive=True)
        r.count('exhaustive_short_streams')
    else:
        r.count('exhaustive_short_streams', 0)
    if shard['idx'] < 4:
        w.run_long_line(rng, [70_000, 1_100_000, 1_600_000, 2_200_000][shard['idx']])
    for _ in range(12 if shard.get('tier') == 'quick' else 400):
        w.run_concurrent_send(rng)
    for _ in range(30 if shard.get('tier') == 'quick' else 1500):
        w.run_send_timeout(rng)
    for _ in range(4 if shard.get('tier') == 'quick' else 100):
        w.run_dead_peer(rng)
    w.run_codec(rng, 2000)
    return r.result()


def replay(case):
    r = rec.Recorder()
    w = World(r)
    if 'stream' in case:
        stream = case['stream'].encode('latin1')
        w.run_stream(stream, tuple(case.get('classes', ())), random.Random(0))
    else:
        w.run_codec(random.Random(0), 3000)
    return r.result()
