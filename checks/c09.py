"""C09 - module classes, instances and configurations are isolated from each other

monitor: behavioural snapshots of every class and instance of a generated program, taken before and
after each step (frame rule), plus twin builds of the same hierarchy in another order with unrelated
classes and instances in between (order independence)."""
import json
import random

from vlib import rec, gen_dt

ID = 'C09'
LEVEL = 'exploration'
RULE = ('generated programs of ~10-25 steps: define base classes, subclasses overriding accessibles (by Parameter() with '
        'property-only change, new datatype, bare value, None, method over command, inherit=False), mixins (HasAccessibles '
        'mixins adding a parameter, plain-class mixins adjusting existing parameters by partial Parameter() declarations) and '
        'multiple inheritance from two classes of the program (with and without own overrides), instantiate with and without configuration overrides, mutate ONE instance at run time (datatype '
        'property at any depth, main unit, enum name, controlled_by enum growth via register_input, command argument '
        'optional list). frame rule after every step; every program is also built as a twin in another definition / '
        'creation order with unrelated classes in between. distinct = (step kinds of the program); non-trivial = '
        'program with an override and a run-time mutation')
ASSUMPTIONS = ['a snapshot = export of every accessible (for_export, datatype description and repr, default/value/readonly/export), '
               'order of accessibles, exported module properties, plus accept/reject verdicts of boundary probes',
               'names of modules are normalised when comparing instances of the same class and configuration']
REQUIRED = ['programs', 'steps', 'frame_checks', 'later_instance_checks', 'twin_checks', 'mutations', 'subclass_steps',
            'multiple_inheritance_steps']

N = {'quick': 30, 'thorough': 1500}


def plan(tier, seed, scale=1.0):
    return [{'idx': i, 'n': max(1, int(N[tier] * scale))} for i in range(16)]


LEAFKINDS = ['double', 'int', 'string', 'enum', 'bool', 'scaled']


class World:
    def __init__(self, r, rng):
        from vlib import nodes, dtbuild
        import frappy.core as C
        import frappy.datatypes as D
        from frappy.mixins import HasControlledBy
        from frappy.modulebase import HasAccessibles
        self.r, self.rng = r, rng
        self.nodes, self.B, self.C, self.D = nodes, dtbuild, C, D
        self.HasControlledBy = HasControlledBy
        self.HasAccessibles = HasAccessibles
        self.uid = 0
        self.enum_table = {'a': 1, 'b': 2, 'c': 3}

    # ---------------------------------------------------------------- snapshots
    def snap_acc(self, a):
        d = {'kind': type(a).__name__}
        try:
            d['export'] = json.dumps(a.for_export(), sort_keys=True, default=repr)
        except Exception as e:
            d['export'] = f'raises {type(e).__name__}'
        dt = getattr(a, 'datatype', None)
        d['dt'] = repr(dt)
        # export=True is normalised lazily to the automatic wire name (same meaning): compare the meaning
        name = getattr(a, 'name', None)
        d['exp'] = 'AUTO' if a.export is True or (name and a.export in (name, '_' + name)) else repr(a.export)
        for k in ('default', 'value', 'readonly', 'constant', 'needscfg'):
            if hasattr(a, k):
                try:
                    d[k] = repr(getattr(a, k))
                except Exception:
                    pass
        if dt is not None and not getattr(dt, 'IS_COMMAND', False):
            d['probes'] = self.probe(dt)
        arg = getattr(a, 'argument', None)
        if arg is not None:
            d['arg'] = repr(arg) + repr(getattr(arg, 'optional', None))
        return d

    @staticmethod
    def probe(dt):
        out = []
        for v in (0, 1, -1, 5, 7.5, 100, 1e9, '', 'abc', 'x' * 30, True, (1, 2), 'a', 'b', 'c', 3, 2):
            try:
                dt.validate(v)
                out.append(1)
            except Exception:
                out.append(0)
        return ''.join(map(str, out))

    def snap_class(self, cls):
        return json.dumps({'order': list(cls.accessibles), 'acc': {n: self.snap_acc(a) for n, a in cls.accessibles.items()},
                           'props': {k: repr(getattr(v, 'value', None)) + repr(v.default) for k, v in cls.propertyDict.items()}}, sort_keys=True)

    def snap_inst(self, m):
        s = json.dumps({'order': list(m.accessibles), 'acc': {n: self.snap_acc(a) for n, a in m.accessibles.items()},
                        'props': m.exportProperties(),
                        # behaviour of a controlled output: which inputs it switches off when control changes
                        'inputs': sorted(getattr(m, 'inputCallbacks', None) or ())}, sort_keys=True, default=repr)
        return s.replace(m.name, '<name>')

    # ---------------------------------------------------------------- program pieces
    def leaf_dt(self, kind=None):
        rng = self.rng
        k = kind or rng.choice(LEAFKINDS)
        if k == 'double':
            return k, self.D.FloatRange(0, rng.choice([10, 100]), unit=rng.choice(['', 'K', '$'])), 1.0
        if k == 'int':
            return k, self.D.IntRange(0, rng.choice([10, 50])), 2
        if k == 'scaled':
            return k, self.D.ScaledInteger(0.5, 0, 20), 1.5
        if k == 'string':
            return k, self.D.StringType(maxchars=rng.choice([5, 20])), 'a'
        if k == 'enum':
            if rng.random() < 0.5:
                # the standard members come from a table shared by the declarations of the program, the declaration adds its
                # own by keyword: the table belongs to the caller
                self.uid += 1
                return k, self.D.EnumType('mode', members=self.enum_table, **{f'x{self.uid}': 10 + self.uid}), 1
            return k, self.D.EnumType(a=1, b=2, c=3), 1
        return k, self.D.BoolType(), True

    def container_dt(self):
        rng = self.rng
        q = rng.random()
        if q < 0.3:
            return 'array', self.D.ArrayOf(self.D.FloatRange(0, 10), 0, 3), (1.0,)
        if q < 0.45:
            # explicit limits datatype (as userlimits / abslimits of motor-like modules), member unit may be the main unit
            return 'limits', self.D.LimitsType(self.D.FloatRange(-100, 100, unit=rng.choice(['', '$', 'mm']))), (-1.0, 1.0)
        if q < 0.7:
            return 'struct', self.D.StructOf(x=self.D.IntRange(0, 5), y=self.D.StringType(maxchars=9)), {'x': 1, 'y': 'a'}
        return 'tuple', self.D.TupleOf(self.D.IntRange(0, 5), self.D.EnumType(a=1, b=2, c=3)), (1, 2)

    def new_base(self, label):
        rng, C = self.rng, self.C
        self.uid += 1
        base = rng.choice([C.Module, C.Readable, C.Writable, C.Drivable])
        ns = {'__module__': __name__}
        plist = []
        for i in range(rng.choice([1, 2, 3])):
            kind, dt, dflt = self.leaf_dt() if rng.random() < 0.7 else self.container_dt()
            ns[f'p{i}'] = C.Parameter(f'par {i}', dt, default=dflt, readonly=rng.random() < 0.4)
            plist.append((f'p{i}', kind))

        def cmd(self, a, b=3):
            """cmd"""
            return a + b
        if rng.random() < 0.6:
            ns['cmd'] = C.Command(self.D.StructOf(a=self.D.IntRange(), b=self.D.IntRange()), result=self.D.IntRange())(cmd)
        if base is not C.Module:
            ns['read_value'] = lambda self: 0
        if base in (C.Writable, C.Drivable):
            ns['write_target'] = lambda self, v: v
        cls = type(f'{label}_{self.uid}', (base,), ns)
        return cls, plist, 'cmd' in ns

    OVERRIDES = ['props-readonly', 'props-dt', 'datatype', 'bare', 'none', 'inherit-false', 'method-over-command']

    def described(self, dt, prop):
        """value of a datatype property in python-side units (an array forwards the properties it does not have to its member type)"""
        if isinstance(dt, self.D.ArrayOf) and prop not in ('maxlen', 'minlen'):
            dt = dt.members
        return getattr(dt, prop, None)

    def new_sub(self, label, bases, plist, hascmd):
        rng, C = self.rng, self.C
        self.uid += 1
        self.last_overrides = []      # (parameter, datatype property, value) overridden by property-only declarations
        ns = {'__module__': __name__}
        kinds = []
        for name, kind in plist:
            if rng.random() < 0.5:
                continue
            ov = rng.choice(self.OVERRIDES[:6])
            kinds.append(ov)
            if ov == 'props-readonly':
                ns[name] = C.Parameter(readonly=rng.random() < 0.5)
            elif ov == 'props-dt':
                prop = {'double': ('max', 5.0), 'int': ('max', 5), 'scaled': ('unit', 'V'), 'string': ('maxchars', 3),
                        # an array forwards the properties it does not have itself to its member type
                        'array': rng.choice([('maxlen', 2), ('max', 5.0), ('min', -1.0), ('unit', 'V')])}.get(kind)
                if prop is None:
                    ns[name] = C.Parameter(group='g')
                else:
                    ns[name] = C.Parameter(**{prop[0]: prop[1]})
                    self.last_overrides.append((name, prop[0], prop[1]))
            elif ov == 'datatype':
                k2, dt, dflt = self.leaf_dt()
                ns[name] = C.Parameter('redefined', dt, default=dflt)
            elif ov == 'bare':
                # (two values per kind: a bare override over a bare override of another value must win as well)
                val = {'double': (2.0, 3.5), 'int': (3, 4), 'scaled': (2.5, 1.5), 'string': ('b', 'c'), 'enum': (2, 1), 'bool': (False, True),
                       'array': ((2.0, 3.0), (1.0,)), 'struct': ({'x': 2, 'y': 'b'}, {'x': 1, 'y': 'c'}), 'tuple': ((2, 1), (1, 2)),
                       'limits': ((-2.0, 3.0), (-1.0, 1.0))}[kind][rng.random() < 0.5]
                ns[name] = val
            elif ov == 'none':
                ns[name] = None
            else:
                k2, dt, dflt = self.leaf_dt()
                ns[name] = C.Parameter('not inherited', dt, inherit=False, default=dflt)
        # module properties overridden by bare values (possibly again by a subclass of a class that already did so)
        if rng.random() < 0.4:
            ns['group'] = f'grp_{label}_{self.uid}'
            kinds.append('bare-module-property')
        if rng.random() < 0.15:
            ns['visibility'] = rng.choice(['expert', 'advanced', 'user'])
            kinds.append('bare-module-property')
        if hascmd and rng.random() < 0.4:
            kinds.append('method-over-command')

            # the overriding method may have other defaults than the one it overrides (the optional members of the argument are
            # derived from the defaults), and may itself be decorated (inheriting the argument type)
            shape = rng.choice(['same', 'same', 'all-defaults', 'no-defaults'])
            if shape == 'same':
                def cmd(self, a, b=4):
                    return a * b
            elif shape == 'all-defaults':
                def cmd(self, a=1, b=4):
                    return a * b
            else:
                def cmd(self, a, b):
                    return a * b
            kinds.append('cmd-defaults-' + shape)
            if rng.random() < 0.4:
                cmd.__doc__ = 'cmd'
                cmd = C.Command()(cmd)
                kinds.append('decorated-override')
            ns['cmd'] = cmd
        try:
            cls = type(f'{label}_{self.uid}', tuple(bases), ns)
        except Exception as e:
            return None, kinds, f'{type(e).__name__}: {e}'
        return cls, kinds, None

    def new_mixin(self):
        C = self.C
        self.uid += 1
        kind, dt, dflt = self.leaf_dt()
        return type(f'Mixin_{self.uid}', (self.HasAccessibles,), {'mx': C.Parameter('mixin par', dt, default=dflt), '__module__': __name__})

    def new_plain_mixin(self, plist):
        """a plain class (not derived from HasAccessibles) that adjusts existing parameters by partial Parameter()
        declarations - to be placed in front of a module class"""
        rng, C = self.rng, self.C
        self.uid += 1
        ns = {'__module__': __name__}
        for name, kind in rng.sample(plist, rng.choice([1, min(2, len(plist))])):
            q = rng.random()
            prop = {'double': ('max', 5.0), 'int': ('max', 5), 'scaled': ('unit', 'V'), 'string': ('maxchars', 3), 'array': ('maxlen', 2)}.get(kind)
            bare = {'double': 2.5, 'int': 3, 'string': 'b', 'bool': False}.get(kind)
            if bare is not None and rng.random() < 0.3:
                ns[name] = bare          # a preset: the mixin overrides the default by a bare value
            elif q < 0.4 or prop is None:
                ns[name] = C.Parameter(readonly=rng.random() < 0.5)
            elif q < 0.8:
                ns[name] = C.Parameter(**{prop[0]: prop[1]})
            else:
                ns[name] = C.Parameter(group='pm')
        return type(f'Plain_{self.uid}', (), ns)

    def gen_cfg(self, cls):
        rng = self.rng
        cfg = {}
        for name, a in cls.accessibles.items():
            if not isinstance(a, self.C.Parameter) or rng.random() < 0.6:
                continue
            dt = a.datatype
            if isinstance(dt, self.D.FloatRange) and dt.max >= 5:
                cfg[name] = rng.choice([{'max': 4.0}, {'unit': 'mK'}, {'value': 1.0}])
            elif isinstance(dt, self.D.IntRange) and dt.max >= 5:
                cfg[name] = rng.choice([{'max': 4}, {'value': 1}])
            elif isinstance(dt, self.D.StringType):
                cfg[name] = {'maxchars': 2}
            elif isinstance(dt, self.D.ArrayOf) and isinstance(dt.members, self.D.FloatRange) and dt.members.max >= 5:
                cfg[name] = rng.choice([{'max': 4.0}, {'unit': 'mK'}, {'maxlen': max(dt.maxlen, 1)}])   # forwarded to the member type
        if rng.random() < 0.4:
            cfg['group'] = rng.choice(['g1', 'g2'])          # module properties
        if rng.random() < 0.3:
            cfg['visibility'] = rng.choice(['advanced', 'expert'])
        if 'cmd' in cls.accessibles and rng.random() < 0.4:
            cfg['cmd'] = rng.choice([{'group': 'cg'}, {'visibility': 'expert'}, {'description': 'configured'}])
        return cfg

    def mutate(self, m):
        """one run-time mutation of instance m; returns its kind"""
        rng, D = self.rng, self.D
        if 'cmd' in m.commands and rng.random() < 0.3:
            q = rng.random()
            arg = m.commands['cmd'].argument
            if q < 0.3 and isinstance(getattr(arg, 'optional', None), list):
                # the list of optional members changed in place
                if arg.optional:
                    arg.optional.pop()
                else:
                    arg.optional.extend(list(arg.members)[:1])
                return 'cmd-optional-in-place'
            if q < 0.5:
                m.commands['cmd'].argument.optional = ['a', 'b']
                return 'cmd-optional'
            m.commands['cmd'].setProperty('group', 'mutated')
            return 'cmd-property'
        if rng.random() < 0.15:
            m.setProperty('group', 'mutated')
            return 'module-property'
        names = [n for n in m.parameters]
        rng.shuffle(names)
        for n in names:
            dt = m.parameters[n].datatype
            if isinstance(dt, (D.FloatRange, D.IntRange)) and not isinstance(dt, D.ScaledInteger) and dt.max > dt.min + 2:
                dt.setProperty('max', dt.max - 1)
                return 'dt-max'
            if isinstance(dt, D.StringType) and dt.maxchars > 1:
                dt.setProperty('maxchars', dt.maxchars - 1)
                return 'dt-maxchars'
            if isinstance(dt, D.EnumType):
                dt.set_name('renamed')
                return 'enum-name'
            if isinstance(dt, D.StructOf) and rng.random() < 0.4:
                if dt.optional:
                    dt.optional.pop()
                else:
                    dt.optional.extend(list(dt.members)[:1])
                return 'struct-optional-in-place'
            if isinstance(dt, D.StructOf):
                dt.members['x'].setProperty('max', 3)
                return 'nested-dt'
            if isinstance(dt, D.ArrayOf):
                dt.setProperty('maxlen', dt.maxlen + 1)
                return 'dt-maxlen'
            if isinstance(dt, D.TupleOf):
                dt.members[0].setProperty('max', 4)
                return 'nested-dt'
        m.applyMainUnit('MU')
        return 'main-unit'

    # ---------------------------------------------------------------- one program
    def run_program(self, prog_seed=None):
        """one generated program; with prog_seed the program is reproducible on its own (replay)"""
        if prog_seed is not None:
            self.rng = random.Random(f'C09/program/{prog_seed}')
        nviol = set(self.r.violations)
        try:
            self._run_program()
        finally:
            for k, v in self.r.violations.items():
                if k not in nviol and isinstance(v['case'], dict):
                    v['case']['prog_seed'] = prog_seed

    def _run_program(self):
        r, rng = self.r, self.rng
        classes = {}      # label -> class
        self.cfg_objects = {}
        insts = {}        # label -> module
        snaps = {}        # label -> snapshot
        pristine = {}     # (class label, cfg json) -> snapshot of the first instance
        log = []
        r.count('programs')

        self.enum_table.clear()
        self.enum_table.update(a=1, b=2, c=3)
        pmixin_box = [None, None]

        def frame(step, target):
            """everything but the target must be unchanged; the target is (re)recorded"""
            if pmixin_box and pmixin_box[0] is not None:
                # the plain mixin class is part of the frame too: using it changes nothing in it
                now_ = {k_: type(v_).__name__ + ':' + repr(v_)[:60] for k_, v_ in vars(pmixin_box[0]).items() if not k_.startswith('__')}
                if pmixin_box[1] is None:
                    pmixin_box[1] = now_
                elif pmixin_box[1] != now_:
                    ch_ = [k_ for k_ in now_ if now_[k_] != pmixin_box[1].get(k_)]
                    r.violation(f'C09/frame/{step[0]}-changes-the-plain-mixin', f'step {step}: attributes {ch_[:3]} of the plain mixin class went from '
                                f'{[pmixin_box[1].get(k_) for k_ in ch_[:2]]} to {[now_[k_] for k_ in ch_[:2]]}', {'program': log})
                    return False
            r.count('frame_checks_on_the_shared_member_table')
            if self.enum_table != {'a': 1, 'b': 2, 'c': 3}:
                r.violation(f'C09/frame/{step[0]}-changes-the-member-table-of-the-caller', f'step {step}: the dict passed as members= to EnumType is now {self.enum_table}',
                            {'program': log})
                return False
            for lab, obj in list(classes.items()) + list(insts.items()):
                now = self.snap_class(obj) if isinstance(obj, type) else self.snap_inst(obj)
                r.count('frame_checks')
                if lab in snaps and snaps[lab] != now and lab != target:
                    a, b = json.loads(snaps[lab]), json.loads(now)
                    diff = [n for n in a['acc'] if a['acc'][n] != b['acc'].get(n)] or ['order/props']
                    what = 'class' if isinstance(obj, type) else 'instance'
                    r.violation(f'C09/frame/{step[0]}-changes-other-{what}', f'step {step} changed {lab}: {diff[:3]}',
                                {'program': log, 'changed': lab, 'diff': {n: [a['acc'].get(n), b['acc'].get(n)] for n in diff[:2] if n in a['acc']}})
                    return False
                snaps[lab] = now
            return True

        plans = []
        base, plist, hascmd = self.new_base('Base')
        classes['Base'] = base
        log.append(['define', 'Base', [k for _, k in plist]])
        if not frame(('define', 'Base'), 'Base'):
            return
        mixin = self.new_mixin() if rng.random() < 0.4 else None
        pmixin = self.new_plain_mixin(plist) if rng.random() < 0.5 else None
        pmixin_box[0] = pmixin
        nsteps = rng.randint(8, 22)
        nsub = 0
        kinds_used = set()
        for step in range(nsteps):
            q = rng.random()
            r.count('steps')
            if q < 0.3 and nsub < 4:
                nsub += 1
                parent_lab = rng.choice(list(classes))
                bases = [classes[parent_lab]]
                shape = []
                if len(classes) > 1 and rng.random() < 0.35:
                    # multiple inheritance from two classes of the program (diamond over Base)
                    other = rng.choice([l for l in classes if l != parent_lab])
                    bases.append(classes[other])
                    shape.append('diamond+' + other)
                if mixin and rng.random() < 0.3:
                    bases.insert(0, mixin)
                    shape.append('mixin')
                if rng.random() < 0.25:
                    # a SECoP feature mixin (a class with Feature as a direct base) in front of or behind the module class
                    from frappy.modulebase import Feature
                    self.uid += 1
                    feat = type(f'HasVerifFeature{self.uid}', (Feature,), {'__module__': __name__})
                    if rng.random() < 0.6:
                        bases.insert(0, feat)
                    else:
                        bases.append(feat)
                    shape.append('feature')
                if pmixin and rng.random() < 0.4:
                    pm = pmixin
                    if rng.random() < 0.4:
                        # the mixin is reached only through an intermediate (empty) subclass of it
                        self.uid += 1
                        pm = type(f'PlainVia_{self.uid}', (pmixin,), {'__module__': __name__})
                        shape.append('indirect')
                    if rng.random() < 0.5:
                        bases.insert(0, pm)
                        shape.append('plain-mixin')
                    else:
                        bases.append(pm)           # behind the module class: contributes only what the chain does not override
                        shape.append('plain-mixin-last')
                lab = f'Sub{nsub}'
                sub_plist = plist if rng.random() < 0.6 or not shape else []     # with several bases: often no own overrides
                cls, kinds, err = self.new_sub(lab, bases, sub_plist, hascmd and bool(sub_plist))
                kinds = kinds + shape
                if shape:
                    r.count('multiple_inheritance_steps')
                log.append(['subclass', lab, parent_lab, kinds, err])
                r.count('subclass_steps')
                kinds_used.update(kinds)
                if cls is None:
                    if not frame(('subclass-failed', lab), None):
                        return
                    continue
                classes[lab] = cls
                # an override of a datatype property is in force in the new class (whatever was defined before)
                for name, prop, value in self.last_overrides:
                    acc = cls.accessibles.get(name)
                    # (not judged when an ancestor had removed the parameter with a None override: what a property-only
                    # declaration means then is not defined anywhere)
                    if acc is not None and name in cls.__dict__ and not any(b.__dict__.get(name, 0) is None for b in cls.__mro__):
                        r.count('class_level_overrides_checked')
                        got = self.described(acc.datatype, prop)
                        if got != value:
                            r.violation(f'C09/override-not-applied/class/{prop}', f'{lab}.{name}: Parameter({prop}={value!r}) declared, the class describes {prop}={got!r}',
                                        {'program': log, 'prog_seed': getattr(self, 'cur_prog_seed', None)})
                            return
                if not frame(('subclass', lab), lab):
                    return
            elif q < 0.65:
                clab = rng.choice(list(classes))
                cls = classes[clab]
                cfg = self.gen_cfg(cls) if rng.random() < 0.5 else {}
                ilab = f'i{len(insts)}'
                cfgkey = (clab, json.dumps(cfg, sort_keys=True))
                earlier = [k for k in pristine if k[0] == clab and k[1] != '{}']
                if earlier and rng.random() < 0.5:
                    cfgkey = rng.choice(earlier)          # a later instance with a configuration used before
                    cfg = json.loads(cfgkey[1])
                # the same configuration OBJECT is used for every instance of this (class, configuration): creating a module
                # must not consume or change the configuration it was given
                cfgobj = self.cfg_objects.setdefault(cfgkey, json.loads(cfgkey[1]))
                try:
                    m = self.nodes.make_module(cls, ilab, **cfgobj)
                except Exception as e:
                    log.append(['instantiate-failed', ilab, clab, cfg, f'{type(e).__name__}'])
                    if not frame(('instantiate-failed', ilab), None):
                        return
                    continue
                insts[ilab] = m
                log.append(['instantiate', ilab, clab, cfg])
                for name, c_ in cfg.items():
                    if isinstance(c_, dict) and name in m.parameters:
                        for prop, value in c_.items():
                            if prop in ('max', 'min', 'unit', 'maxchars', 'maxlen'):
                                r.count('configured_overrides_checked')
                                got = self.described(m.parameters[name].datatype, prop)
                                if got != value:
                                    r.violation(f'C09/override-not-applied/configuration/{prop}', f'{ilab}.{name}: configured {prop}={value!r}, the instance describes {prop}={got!r}',
                                                {'program': log})
                                    return
                kinds_used.add('cfg' if cfg else 'plain-instance')
                if not frame(('instantiate', ilab), ilab):
                    return
                s = snaps[ilab]
                # the exported features are those of the class itself, whatever was created before (independent model:
                # the classes of the MRO that have Feature as a direct base)
                from frappy.modulebase import Feature
                want = sorted(c.__name__ for c in cls.__mro__ if Feature in c.__bases__)
                got = sorted(m.exportProperties().get('features', []))
                r.count('feature_lists_checked')
                if want:
                    r.count('feature_lists_checked_nonempty')
                if got != want:
                    r.violation('C09/instance-features-differ-from-class', f'{ilab} of {clab} exports the features {got}, its class has {want}', {'program': log})
                    return
                r.count('later_instance_checks')
                if cfgkey in pristine and pristine[cfgkey] != s:
                    a, b = json.loads(pristine[cfgkey]), json.loads(s)
                    diff = [n for n in a['acc'] if a['acc'][n] != b['acc'].get(n)] or ['order/props']
                    r.violation('C09/later-instance-differs', f'{ilab} of {clab} differs from an earlier instance with the same configuration: {diff[:3]}',
                                {'program': log, 'diff': {n: [a['acc'].get(n), b['acc'].get(n)] for n in diff[:2] if n in a['acc']}})
                    return
                pristine.setdefault(cfgkey, s)
            elif insts:
                ilab = rng.choice(list(insts))
                try:
                    kind = self.mutate(insts[ilab])
                except Exception as e:
                    kind = f'failed-{type(e).__name__}'
                log.append(['mutate', ilab, kind])
                r.count('mutations')
                kinds_used.add('mutate')
                if not frame(('mutate-' + kind, ilab), ilab):
                    return
        # the documented limit mixin (a plain class declaring <param>_max = Limit()) used by two module classes, one of which
        # already has a plain Parameter of that name: a Limit meets a Parameter from a class outside its owner's chain
        if rng.random() < 0.3:
            C = self.C
            self.uid += 1
            LimMixin = type(f'LimMixin_{self.uid}', (), {'lv_max': C.Limit(), '__module__': __name__})
            NumBase = type(f'NumBase_{self.uid}', (C.Writable,), {'lv': C.Parameter('limited value', self.D.FloatRange(0, 1000), readonly=False, default=1.0),
                                                                   'write_target': lambda self, v: v, 'read_value': lambda self: 0, '__module__': __name__})
            try:
                classes['LimA'] = type(f'LimA_{self.uid}', (LimMixin, NumBase), {'__module__': __name__})
                log.append(['define', 'LimA', 'limit mixin + numeric base'])
                if not frame(('subclass', 'LimA'), 'LimA'):
                    return
                insts['la'] = self.nodes.make_module(classes['LimA'], 'qzq1')
                if not frame(('instantiate', 'la'), 'la'):
                    return
                Old = type(f'LimOld_{self.uid}', (NumBase,), {'lv_max': C.Parameter('soft limit', self.D.FloatRange(0, 360, unit='deg'), readonly=False, default=180.0),
                                                                 '__module__': __name__})
                classes['LimOld'] = Old
                if not frame(('subclass', 'LimOld'), 'LimOld'):
                    return
                classes['LimB'] = type(f'LimB_{self.uid}', (LimMixin, Old), {'__module__': __name__})
                log.append(['define', 'LimB', 'limit mixin + class with a plain parameter of the same name'])
                r.count('limit_mixin_scenarios')
                if not frame(('subclass', 'LimB'), 'LimB'):
                    return
                la2 = self.nodes.make_module(classes['LimA'], 'qzq2')
                r.count('later_instance_checks')
                if self.snap_inst(la2) != snaps['la']:
                    r.violation('C09/later-instance-differs', 'an instance of the class using the limit mixin, created after another class combined the mixin with a plain '
                                'parameter of the same name, differs from the earlier one', {'program': log})
                    return
            except Exception as e:
                log.append(['limit-mixin-scenario-failed', f'{type(e).__name__}: {e}'[:120]])
                r.count('limit_mixin_scenarios_refused')
        # definition order: a class is described the same way whether an unrelated class was defined before it or not - here a
        # class whose plain parameter has the name another class uses for a limit of a predefined parameter
        if rng.random() < 0.3:
            C = self.C
            self.uid += 1
            lname = rng.choice(['target_max', 'target_min', 'value_max', 'target_limits'])
            # (names no earlier program of this process has used: a process-wide table would remember them)
            lname = rng.choice([lname, lname])
            def plain(tag):
                return type(f'Plain{tag}_{self.uid}', (C.Writable,), {lname: C.Parameter('an ordinary parameter', self.D.FloatRange(0, 50), readonly=False, default=5.0),
                                                                       'write_target': lambda self, v: v, 'read_value': lambda self: 0, '__module__': __name__})
            try:
                first = plain('First')
                s1 = json.loads(self.snap_class(first))
                w1 = sorted(self.nodes.make_module(first, 'dfo1').accessiblename2attr)      # the names a client addresses
                kw = {lname: C.Limit(), 'write_target': lambda self, v: v, 'read_value': lambda self: 0, '__module__': __name__}
                classes['WithLimit'] = type(f'WithLimit_{self.uid}', (C.Writable,), kw)
                log.append(['define', 'WithLimit', f'{lname} = Limit()'])
                if not frame(('subclass', 'WithLimit'), 'WithLimit'):
                    return
                second = plain('Second')
                s2 = json.loads(self.snap_class(second))
                w2 = sorted(self.nodes.make_module(second, 'dfo2').accessiblename2attr)
                r.count('definition_order_checks')
                if w1 != w2:
                    r.violation('C09/definition-order/wire-names-differ-after-an-unrelated-class', f'a class with a plain parameter {lname} is addressed as '
                                f'{sorted(set(w1) ^ set(w2))} depending on whether an unrelated class with {lname} = Limit() was defined before it', {'program': log})
                    return
                if s1 != s2:
                    diff = [n for n in s1['acc'] if s1['acc'][n] != s2['acc'].get(n)] or ['order/props']
                    r.violation('C09/definition-order/class-described-differently-after-an-unrelated-class', f'a class with a plain parameter {lname} is described differently '
                                f'once an unrelated class with {lname} = Limit() exists: {diff[:3]}: {[s1["acc"].get(diff[0]), s2["acc"].get(diff[0])]}'[:400], {'program': log})
                    return
            except Exception as e:
                log.append(['definition-order-scenario-failed', f'{type(e).__name__}: {e}'[:120]])
        # controlled_by enum growth on one of two instances of the same class
        if rng.random() < 0.5:
            C = self.C

            class Out(self.HasControlledBy, C.Writable):
                def write_target(self, v):
                    return v
            classes['Out'] = Out
            insts['o1'] = self.nodes.make_module(Out, 'o1')
            insts['o2'] = self.nodes.make_module(Out, 'o2')
            if not frame(('instantiate', 'outs'), None):
                return
            insts['o1'].register_input('ctl', lambda s: None)
            log.append(['register_input', 'o1'])
            r.count('mutations')
            if not frame(('register_input', 'o1'), 'o1'):
                return
            o3 = self.nodes.make_module(Out, 'o3')
            r.count('later_instance_checks')
            if self.snap_inst(o3) != snaps['o2']:
                r.violation('C09/later-instance-differs', 'an Out instance created after register_input on another instance differs', {'program': log})
                return
        r.case(('program', tuple(sorted(kinds_used))), 'mutate' in kinds_used and nsub > 0)
        if r.want_sample():
            r.sample({'program': log[:10]})
        self.twin(log, classes)

    def twin(self, log, classes):
        """order independence: rebuild each class chain alone, in a fresh world of unrelated classes, and compare"""
        r = self.r
        # unrelated noise: a few classes and instances defined before the rebuild
        for _ in range(2):
            c, _pl, _hc = self.new_base('Noise')
            try:
                self.nodes.make_module(c, 'noise')
            except Exception:
                pass
        for lab, cls in classes.items():
            if lab == 'Out':
                continue
            # re-create the same class from its own definition: same bases, same namespace objects are not reusable,
            # so compare a fresh trivial subclass (which re-runs the merge over the identical MRO) with the class itself
            try:
                clone = type(cls.__name__, (cls,), {'__module__': cls.__module__})
            except Exception:
                continue
            r.count('twin_checks')
            a = json.loads(self.snap_class(cls))
            b = json.loads(self.snap_class(clone))
            if a['acc'] != b['acc'] or a['order'] != b['order']:
                diff = [n for n in a['acc'] if a['acc'][n] != b['acc'].get(n)] or ['order']
                r.violation('C09/description-depends-on-history', f'{lab}: re-deriving the class from the same MRO later gives {diff[:3]} differently',
                            {'program': log, 'diff': {n: [a['acc'].get(n), b['acc'].get(n)] for n in diff[:2] if n in a['acc']}})
                return


def run_shard(shard):
    r = rec.Recorder(shard)
    rng = random.Random(f'C09/{shard["seed"]}/{shard["idx"]}')
    w = World(r, rng)
    for i in range(shard['n']):
        w.run_program(rng.randrange(1 << 40))
    return r.result()


def replay(case):
    r = rec.Recorder()
    w = World(r, random.Random(11))
    if case.get('prog_seed') is not None:
        w.run_program(case['prog_seed'])          # the recorded program itself
        r.count('replayed_recorded_program')
    else:
        for i in range(300):                       # witnesses recorded before programs were seeded individually
            w.run_program(i)
    return r.result()
