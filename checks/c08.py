"""C08 - activation and deactivation boundaries are exact under any interleaving

monitor: subscription reference model + version-order checker over the total-order log of requests,
cache changes and delivered messages, recorded under the deterministic scheduler."""
import random
import time

from vlib import rec

ID = 'C08'
LEVEL = 'exploration'
PROVISION = False
RULE = ('1..3 connections issuing sequences of activate / deactivate (global, module, parameter scope), *IDN?, disconnect, '
        'interleaved with 1..2 updater threads assigning unique values to the parameters of 2 modules (half of the two-updater '
        'scenarios let both threads write the same parameters); schedules: '
        'bounded-preemption enumeration pb(1)/pb(2) of a small scenario (time-boxed), PCT(1..3), random walk, with LINE '
        'yield points in handle_activate / handle_deactivate / subscribe / unsubscribe / reset_connection / '
        'broadcast_event / make_update / announceUpdate. distinct = schedule signature x scenario; non-trivial = run with '
        'at least one preemption between a boundary request and an update')
ASSUMPTIONS = ['every assigned value is unique; the version of a value is its position in the order in which the cache took the '
               'values, observed by a parameter callback (Module.addCallback), which announceUpdate calls while it holds the '
               'module\'s update lock',
               'deactivate <scope> ends that scope (a module scope also its parameter scopes), global deactivate ends the global scope, '
               '*IDN? and disconnect end all scopes of the connection',
               'changes overlapping a boundary request may be delivered or not; only definite coverage / definite non-coverage is judged']
REQUIRED = ['runs', 'preempted_runs', 'activations_checked', 'changes_checked_must_deliver', 'changes_checked_must_not_deliver',
            'monotonic_sequences', 'pb_runs', 'runs_with_shared_parameters']

N = {'quick': 160, 'thorough': 20000}
# names chosen so that one specifier is a prefix of another (m1 / m10, _x / _x2): scopes are compared exactly
MODS = {'m0': ['x', 'y', 'x2'], 'm1': ['x', 'y', 'z'], 'm10': ['x']}


def plan(tier, seed, scale=1.0):
    return [{'idx': i, 'n': max(1, int(N[tier] * scale)), 'pb_budget': 7 if tier == 'quick' else 200} for i in range(16)]


class World:
    def __init__(self, r):
        from vlib import shimimport, detsched
        shimimport.load()
        self.D = detsched
        from vlib import nodes
        import frappy.core as C
        import frappy.modulebase as MB
        import frappy.protocol.dispatcher as DP
        self.r, self.nodes, self.C = r, nodes, C
        d = DP.Dispatcher
        self.watch = [d.handle_activate, d.handle_deactivate, d.subscribe, d.unsubscribe, d.reset_connection, d.remove_connection,
                      d.broadcast_event, d.announce_update, d.handle__ident, DP.make_update, MB.Module.announceUpdate]
        self.nwatched = detsched.watch_lines(*self.watch)
        self.shim_ok = shimimport.verify()

    def build(self):
        C = self.C
        cfg = {}
        for mn, ps in MODS.items():
            ns = {p: C.Parameter(p, C.IntRange(0, 10 ** 9), readonly=False, default=0) for p in ps}
            ns['__module__'] = __name__
            cfg[mn] = {'cls': type('M8' + mn, (C.Module,), ns), 'description': mn}
        return self.nodes.Node(cfg).build()

    # ---------------------------------------------------------------- scenario
    def gen_scenario(self, rng, small=False):
        nconn = 1 if small else rng.choice([1, 2, 3])
        nupd = 1 if small else rng.choice([1, 2])
        params = [(mn, p) for mn, ps in MODS.items() for p in ps]
        owners = {pp: rng.randrange(nupd) for pp in params}
        # shared: several updater threads write the same parameters (unique values, the version order is the
        # order in which the cache took them, observed through a parameter callback)
        shared = (not small) and nupd > 1 and rng.random() < 0.5
        upd = []
        for u in range(nupd):
            mine = [pp for pp in params if owners[pp] == u]
            if shared:
                mine = rng.sample(params, 2)
            if small:
                mine = mine[:2]
            seq = [rng.choice(mine) for _ in range(2 if small else rng.randint(2, 6))] if mine else []
            upd.append([[mn, p] for mn, p in seq])
        conns = []
        scopes = [None, 'm0', 'm1', 'm0:_x', 'm1:_y', 'm1:_z', 'm0:_y', 'm0:_x2', 'm10', 'm10:_x']
        for c in range(nconn):
            reqs = []
            live = []
            for _ in range(2 if small else rng.randint(2, 6)):
                q = rng.random()
                if q < 0.5 or not live:
                    s = rng.choice(scopes[:4] if small else scopes)
                    reqs.append(['activate', s])
                    live.append(s)
                elif q < 0.75:
                    s = rng.choice(live + [None, 'm0'])
                    reqs.append(['deactivate', s])
                elif q < 0.88:
                    reqs.append(['idn', None])
                    live = []
                else:
                    reqs.append(['disconnect', None])
                    live = []
            conns.append(reqs)
        if not small and rng.random() < 0.12:
            # names that are prefixes of one another: a connection holds a scope of the longer name and of the shorter one,
            # leaves the shorter one (deactivate, or enters and leaves it) while the parameters of the longer one keep changing
            long_, short = rng.choice([('m10', 'm1'), ('m10:_x', 'm1'), ('m0:_x2', 'm0:_x'), ('m10', 'm1:_y')])
            inside = [pp for pp in params if self.covers(long_, *pp)]
            reqs = [['activate', long_], ['activate', short], ['deactivate', short]]
            if rng.random() < 0.5:
                reqs = [['activate', short], ['activate', long_], ['deactivate', short]]
            upd = [[[mn, p] for mn, p in (rng.choice(inside) for _ in range(rng.randint(3, 6)))] for _ in range(len(upd))]
            return {'conns': [reqs] + conns[:1], 'updaters': upd, 'shared': len(upd) > 1, 'prefix_pair': [long_, short]}
        if not small and rng.random() < 0.25:
            # contended scope: one connection leaves (disconnect / *IDN? / deactivate) a narrow scope which another one
            # enters at the same time, while the parameters in it keep changing
            scope = rng.choice(['m0', 'm1', 'm0:_x', 'm1:_y', 'm1:_z', 'm0:_x2', 'm10'])
            inside = [pp for pp in params if self.covers(scope, *pp)]
            conns = [[['activate', scope], [rng.choice(['disconnect', 'disconnect', 'idn', 'deactivate']), scope if False else None]],
                     [['activate', scope]]] + conns[:1]
            if conns[0][1][0] == 'deactivate':
                conns[0][1][1] = scope
            upd = [[[mn, p] for mn, p in (rng.choice(inside) for _ in range(rng.randint(3, 6)))] for _ in range(len(upd))]
            return {'conns': conns, 'updaters': upd, 'shared': len(upd) > 1, 'contended': scope}
        return {'conns': conns, 'updaters': upd, 'shared': shared, 'coarse_ts': (not shared) and rng.random() < 0.25}

    # ---------------------------------------------------------------- one run
    def run(self, scen, strategy, seed):
        r, D = self.r, self.D
        node = self.build()
        disp = node.dispatcher
        mods = node.secnode.modules
        version = {}
        order = {}
        for mn, ps in MODS.items():
            for p in ps:
                mods[mn].addCallback(p, lambda value, *err, _k=(mn, p): order.setdefault(_k, []).append(int(value)))
        shared = scen.get('shared')

        class Conn(self.nodes.Conn):
            def send_reply(self_inner, msg):
                s = D.CURRENT
                if s is not None and s.controlled():
                    s.yield_point('send_reply')
                    s.log('msg', self_inner.name, msg)
                self_inner.out.append(msg)

        def updater(u):
            s = D.CURRENT
            for mn, p in scen['updaters'][u]:
                v = version.get((mn, p, u if shared else None), 0) + 1
                version[(mn, p, u if shared else None)] = v
                if shared:
                    v += (u + 1) * 100000
                s.log('chg-call', mn, p, v)
                if scen.get('coarse_ts'):
                    # the driver forwards the coarse time stamp of its instrument: several values carry the same one
                    mods[mn].announceUpdate(p, v, timestamp=D.T0 + 1 + version[(mn, p, u if shared else None)] // 3)
                else:
                    setattr(mods[mn], p, v)
                s.log('chg-ret', mn, p, v)

        def client(c):
            s = D.CURRENT
            gen = 0
            conn = Conn(f'c{c}.{gen}')
            disp.add_connection(conn)
            for action, scope in scen['conns'][c]:
                s.log('req-call', conn.name, action, scope)
                try:
                    if action == 'activate':
                        disp.handle_request(conn, ('activate', scope, None))
                    elif action == 'deactivate':
                        disp.handle_request(conn, ('deactivate', scope, None))
                    elif action == 'idn':
                        disp.handle_request(conn, ('*IDN?', None, None))
                    else:
                        disp.remove_connection(conn)
                    s.log('req-ret', conn.name, action, scope, 'ok')
                except Exception as e:
                    s.log('req-ret', conn.name, action, scope, type(e).__name__)
                if action == 'disconnect':
                    gen += 1
                    conn = Conn(f'c{c}.{gen}')
                    disp.add_connection(conn)

        def root():
            ths = [D.CoThread(target=updater, args=(u,), name=f'upd{u}') for u in range(len(scen['updaters']))]
            ths += [D.CoThread(target=client, args=(c,), name=f'cli{c}') for c in range(len(scen['conns']))]
            for t in ths:
                t.start()
            for t in ths:
                t.join()
            # the state when everybody is done (judged as well: a stale last message must not be papered over by what follows)
            self.presettle = {'idx': len(D.CURRENT.events), 'cache': {(mn, p): int(mods[mn].parameters[p].value) for mn, ps in MODS.items() for p in ps}}
            # when everybody is done every parameter changes once more: a subscription that was lost on the way shows
            for mn, ps in MODS.items():
                for p in ps:
                    key = (mn, p, 'settle' if shared else None)
                    v = version.get((mn, p, None), 0) + 1 if not shared else 900000 + version.get(key, 0) + 1
                    version[(mn, p, None) if not shared else key] = v if not shared else version.get(key, 0) + 1
                    s_ = D.CURRENT
                    s_.log('chg-call', mn, p, v)
                    setattr(mods[mn], p, v)
                    s_.log('chg-ret', mn, p, v)
        s = D.Sched(strategy, seed, horizon=100, max_steps=100000)
        s.run(root, wall_timeout=60)
        case = {'scenario': scen, 'strategy': ['prefix', [list(x) for x in strategy[1]]] if strategy[0] == 'prefix' else list(strategy), 'seed': seed}
        r.count('runs')
        if s.npreempt:
            r.count('preempted_runs')
        if s.status != 'ok':
            if s.status in ('watchdog', 'budget'):
                r.inconclusive.append(f'scheduler run ended with {s.status}')
            else:
                r.violation(f'C08/run-{s.status}', f'threads stuck: {s.alive}', case)
            return s
        r.case((strategy[0], s.signature(), len(scen['conns']), len(scen['updaters'])), s.npreempt > 0)
        if r.want_sample() and s.npreempt:
            r.sample({'scenario': scen, 'strategy': strategy[0], 'preemptions': s.npreempt,
                      'log': [list(e[2:5]) for e in s.events if e[3] in ('req-call', 'req-ret', 'chg-ret')][:12]})
        if s.escaped:
            r.violation('C08/exception-escapes-thread', f'{s.escaped[0][:2]}', dict(case, traceback=s.escaped[0][2]))
            return s
        self.judge(s, mods, case, order)
        return s

    # ---------------------------------------------------------------- offline checker
    @staticmethod
    def covers(scope, mn, p):
        if scope is None:
            return True
        if ':' in scope:
            return scope == f'{mn}:_{p}'
        return scope == mn

    def judge(self, s, mods, case, order):
        r = self.r
        ev = s.events
        # value -> version: position in the order in which the cache took the values
        ver = {k: {val: i + 1 for i, val in enumerate(seq)} for k, seq in order.items()}

        def version_of(mn, p, val):
            if val == 0:
                return 0
            return ver.get((mn, p), {}).get(val)
        for k, seq in order.items():
            if len(set(seq)) != len(seq):
                r.inconclusive.append('a value entered the cache twice: version order ambiguous')
                return
        if case['scenario'].get('shared'):
            r.count('runs_with_shared_parameters')
        conns = sorted({e[4] for e in ev if e[3] in ('req-call', 'msg')})
        changes = {}
        for e in ev:
            if e[3] in ('chg-call', 'chg-ret'):
                v = version_of(e[4], e[5], e[6])
                if v is None:
                    if e[3] == 'chg-ret':
                        r.violation('C08/assigned-value-never-reached-cache', f'{e[4]}:{e[5]}={e[6]} was assigned but the parameter callbacks never saw it', case)
                        return
                    continue    # call without return (cannot happen in a finished run)
                if e[3] == 'chg-call':
                    changes[(e[4], e[5], v)] = [e[0], None]
                elif (e[4], e[5], v) in changes:
                    changes[(e[4], e[5], v)][1] = e[0]
        INF = 10 ** 9
        for cname in conns:
            # ---- scope intervals of this connection: [act_call, act_ret, end_call, end_ret]
            scopes = []
            open_req = None
            for e in ev:
                if e[3] == 'req-call' and e[4] == cname:
                    open_req = e
                    action, scope = e[5], e[6]
                    if action == 'deactivate':
                        for sc in scopes:
                            if sc['end_call'] is None and (sc['scope'] == scope or (scope is not None and ':' not in scope and (sc['scope'] or '').startswith(scope + ':'))):
                                sc['end_call'] = e[0]
                                sc['ending'] = True
                    elif action in ('idn', 'disconnect'):
                        for sc in scopes:
                            if sc['end_call'] is None:
                                sc['end_call'] = e[0]
                                sc['ending'] = True
                    else:
                        scopes.append({'scope': scope, 'act_call': e[0], 'act_ret': None, 'end_call': None, 'end_ret': None, 'ok': None})
                elif e[3] == 'req-ret' and e[4] == cname:
                    action = e[5]
                    if action == 'activate':
                        scopes[-1]['act_ret'] = e[0]
                        scopes[-1]['ok'] = e[7] == 'ok'
                    else:
                        for sc in scopes:
                            if sc.pop('ending', False):
                                sc['end_ret'] = e[0]
            scopes = [sc for sc in scopes if sc['ok']]
            msgs = [(e[0], e[5]) for e in ev if e[3] == 'msg' and e[4] == cname and e[5][0] in ('update', 'error_update')]
            # ---- (2) versions never go backwards per parameter
            per = {}
            for idx, m in msgs:
                v = None
                if m[0] == 'update':
                    mn_, _, p_ = m[1].partition(':_')
                    v = version_of(mn_, p_, m[2][0])
                    if v is None:
                        r.violation('C08/delivered-value-never-in-cache', f'{cname}: {m[1]}={m[2][0]} delivered, the cache never held it', dict(case, conn=cname))
                        return
                per.setdefault(m[1], []).append((idx, v))
            for ident, seq in per.items():
                r.count('monotonic_sequences')
                vs = [v for _, v in seq if v is not None]
                if any(b < a for a, b in zip(vs, vs[1:])):
                    r.violation('C08/stale-update-after-newer', f'{cname}/{ident}: versions delivered {vs}', dict(case, conn=cname, ident=ident))
                    return
            # ---- (1) activate delivers a current snapshot of everything in scope before it returns
            for sc in scopes:
                r.count('activations_checked')
                for mn, ps in MODS.items():
                    for p in ps:
                        if not self.covers(sc['scope'], mn, p):
                            continue
                        at_call = max([v for (m2, p2, v), (c0, c1) in changes.items() if (m2, p2) == (mn, p) and c1 is not None and c1 < sc['act_call']] or [0])
                        got = [v for idx, v in per.get(f'{mn}:_{p}', []) if sc['act_call'] <= idx <= sc['act_ret']]
                        if not got:
                            r.violation('C08/activate-without-snapshot', f'{cname}: activate {sc["scope"]!r} returned without an update for {mn}:{p}', dict(case, conn=cname))
                            return
                        if max(v for v in got if v is not None) < at_call:
                            r.violation('C08/activate-snapshot-older-than-cache', f'{cname}: activate {sc["scope"]!r}: {mn}:{p} delivered {got}, cache was at {at_call} before the request',
                                        dict(case, conn=cname))
                            return
            # ---- (3)/(5) per change: definite coverage / definite non-coverage
            for (mn, p, v), (c0, c1) in changes.items():
                if c1 is None:
                    continue
                ident = f'{mn}:_{p}'
                definite = any(self.covers(sc['scope'], mn, p) and sc['act_ret'] is not None and sc['act_ret'] < c0 and (sc['end_call'] is None or sc['end_call'] > c1)
                               for sc in scopes)
                possible = any(self.covers(sc['scope'], mn, p) and sc['act_call'] < c1 and (sc['end_ret'] is None or sc['end_ret'] > c0) for sc in scopes)
                count = [idx for idx, vv in per.get(ident, []) if vv == v]
                if definite:
                    r.count('changes_checked_must_deliver')
                    later_snapshots = sum(1 for sc in scopes if self.covers(sc['scope'], mn, p) and sc['act_ret'] is not None and sc['act_ret'] > c0)
                    if not count:
                        newer = [vv for idx, vv in per.get(ident, []) if vv is not None and vv > v and idx > c0]
                        # a newer version may legitimately overtake only if this one was delivered too
                        r.violation('C08/update-lost', f'{cname}: change {ident}={v} happened entirely inside an active scope but was not delivered '
                                    f'(delivered: {[vv for _, vv in per.get(ident, [])]})', dict(case, conn=cname, ident=ident))
                        return
                    if len(count) > 1 + later_snapshots:
                        r.violation('C08/update-delivered-twice', f'{cname}: {ident}={v} delivered {len(count)}x', dict(case, conn=cname, ident=ident))
                        return
                elif not possible:
                    r.count('changes_checked_must_not_deliver')
                    # a later activate legitimately delivers this version as snapshot
                    leaked = [idx for idx in count if idx < c1 + 1 and not any(sc['act_call'] <= idx <= (sc['act_ret'] or INF) for sc in scopes)]
                    outside = [idx for idx in count if not any(self.covers(sc['scope'], mn, p) and sc['act_call'] <= idx <= (sc['end_ret'] or INF) for sc in scopes)]
                    if outside:
                        r.violation('C08/update-leaked-outside-scope', f'{cname}: {ident}={v} delivered although no scope of this connection covered it at that time',
                                    dict(case, conn=cname, ident=ident))
                        return
            # ---- (4) quiescence: last message equals the cache for definitely live scopes
            for sc in scopes:
                if sc['end_call'] is not None:
                    continue
                for mn, ps in MODS.items():
                    for p in ps:
                        if self.covers(sc['scope'], mn, p):
                            pre = getattr(self, 'presettle', None)
                            if pre is not None:
                                seq0 = [v for i_, v in per.get(f'{mn}:_{p}', []) if i_ < pre['idx']]
                                final0 = version_of(mn, p, pre['cache'][(mn, p)])
                                if not seq0 or seq0[-1] != final0:
                                    r.violation('C08/last-message-differs-from-cache', f'{cname}: {mn}:{p} last delivered version {seq0[-1:] or None} when all threads had '
                                                f'finished, cache held version {final0}', dict(case, conn=cname, ident=f'{mn}:{p}'))
                                    return
                            seq = [v for _, v in per.get(f'{mn}:_{p}', [])]
                            final = version_of(mn, p, int(mods[mn].parameters[p].value))
                            if not seq or seq[-1] != final:
                                r.violation('C08/last-message-differs-from-cache', f'{cname}: {mn}:{p} last delivered version {seq[-1:] or None}, cache holds version {final}',
                                            dict(case, conn=cname))
                                return


def run_shard(shard):
    r = rec.Recorder(shard)
    rng = random.Random(f'C08/{shard["seed"]}/{shard["idx"]}')
    w = World(r)
    if not all(w.shim_ok.values()):
        r.inconclusive.append(f'shim binding incomplete: {w.shim_ok}')
        return r.result()
    r.maximum('line_watched_code_objects', w.nwatched)
    # systematic first: bounded-preemption sweep of a small scenario (what the quantifier asks for first)
    sub = random.Random(f'C08/pb/{shard["seed"]}/{shard["idx"]}')
    scen = w.gen_scenario(sub, small=True)
    k = 1 if shard['idx'] % 2 == 0 else 2
    t_end = time.time() + shard['pb_budget']
    stack = [[]]
    runs = 0
    complete = True
    while stack:
        if time.time() > t_end:
            complete = False
            break
        prefix = stack.pop()
        s = w.run(scen, ('prefix', [tuple(x) for x in prefix]), 0)
        runs += 1
        if len(prefix) < k and s.status == 'ok':
            first = prefix[-1][0] + 1 if prefix else 0
            for i in range(first, len(s.choice_log)):
                for alt in s.choice_log[i]:
                    stack.append(prefix + [[i, alt]])
    r.count('pb_runs', runs)
    r.count(f'pb{k}_complete' if complete else f'pb{k}_truncated')
    if complete:
        r.exhaustive = True if r.exhaustive is None else r.exhaustive
    for i in range(shard['n']):
        scen = w.gen_scenario(rng)
        seed = rng.randrange(1 << 30)
        q = i % 3
        if q == 0:
            w.run(scen, ('pct', rng.choice([1, 2, 3]), 300), seed)
        elif q == 1:
            w.run(scen, ('rw', rng.choice([0.05, 0.2, 0.5])), seed)
        else:
            w.run(scen, ('pct', 2, 150), seed)
    # contended scopes (one connection leaves a scope another one enters): every single preemption point of two such
    # scenarios per shard, time-boxed
    for _ in range(1 if shard.get('tier') == 'quick' else 12):
        for _try in range(60):
            scen = w.gen_scenario(rng)
            if 'contended' in scen:
                break
        else:
            continue
        t_end = time.time() + (5 if shard.get('tier') == 'quick' else 12)
        stack = [[]]
        nrun = 0
        while stack and time.time() < t_end:
            prefix = stack.pop()
            s = w.run(scen, ('prefix', [tuple(x) for x in prefix]), 0)
            nrun += 1
            if not prefix and s.status == 'ok':
                for i in range(len(s.choice_log)):
                    for alt in s.choice_log[i]:
                        stack.append([[i, alt]])
        r.count('contended_scope_sweeps')
        r.count('contended_scope_sweep_runs', nrun)
        r.count('contended_scope_sweeps_complete' if not stack else 'contended_scope_sweeps_truncated')
    w.D.unwatch_all()
    r.exhaustive = None     # randomised part is not exhaustive; the sweeps report their completion in the counters
    return r.result()


def replay(case):
    r = rec.Recorder()
    w = World(r)
    st = case['strategy']
    strategy = ('prefix', [tuple(x) for x in st[1]]) if st[0] == 'prefix' else tuple(st)
    w.run(case['scenario'], strategy, case['seed'])
    w.D.unwatch_all()
    return r.result()
