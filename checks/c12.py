"""C12 - client cache and callbacks mirror the node end to end

(a) cache monitor: the real receive loop of SecopClient is fed scripted message sequences (sequential,
    scripted io object); oracle = import of the last message per parameter + callback bookkeeping.
(b) end to end: generated node with echoing recording drivers behind the real TCPServer on loopback,
    real SecopClient (and a second node of proxy modules in front of it)."""
import json
import random
import socket
import threading
import time

from vlib import rec, refdt, gen_dt, modgen

ID = 'C12'
LEVEL = 'exploration'
RULE = ('(a) generated descriptions x message sequences (update, error_update, reply, changed, error_read, '
        'error_change; unknown parameters; default-accessible shorthand; malformed lines in between) x callback '
        'registration patterns at node / module / parameter level, incl. registration after messages and unregistering. '
        '(b) real TCP on loopback: generated modules over all datatypes x valid values through setParameter / '
        'getParameter / execCommand / setParameterFromString, driver errors, then the same through proxy modules. '
        'distinct = (message kinds and callback pattern) / (datatype kind, operation, direct|proxy); non-trivial = '
        'sequence with error or malformed messages, or container / boundary values end to end')
ASSUMPTIONS = ['(a) runs the real receive loop in the calling thread on a scripted io object (no sockets, no threads)',
               '(b) depends on the loopback interface; its wall-clock time-outs (10 s per request) are generous and their expiry is inconclusive',
               'equality end to end is decided on the exported form (a scaled value may come back as the neighbouring float of the same grid point)']
REQUIRED = ['sequences', 'messages_fed', 'cache_entries_checked', 'callback_counts_checked', 'registration_calls_checked',
            'malformed_messages', 'e2e_writes', 'e2e_reads', 'e2e_commands', 'e2e_driver_errors', 'e2e_proxy_writes']

N_SEQ = {'quick': 150, 'thorough': 8000}
N_E2E = {'quick': 5, 'thorough': 80}


def plan(tier, seed, scale=1.0):
    return [{'idx': i, 'n_seq': int(N_SEQ[tier] * scale), 'n_e2e': max(1, int(N_E2E[tier] * scale))} for i in range(16)]


def has_float(di):
    t = di['type']
    if t in ('double', 'scaled'):
        return True
    if t == 'array':
        return has_float(di['members'])
    if t == 'tuple':
        return any(has_float(m) for m in di['members'])
    if t == 'struct':
        return any(has_float(m) for m in di['members'].values())
    return False


class ScriptedIO:
    def __init__(self, lines):
        self.lines = list(lines)
        self.sent = []

    def readline(self, timeout=None):
        from frappy.lib.asynconn import ConnectionClosed
        if not self.lines:
            raise ConnectionClosed()
        x = self.lines.pop(0)
        if callable(x):
            # a live node: the line is produced (and time-stamped) only after the receiver has been waiting for a while
            time.sleep(0.01)
            x = x()
        return x

    def send(self, data):
        self.sent.append(data)

    def writeline(self, data):
        self.sent.append(data + b'\n')

    def shutdown(self):
        pass

    def disconnect(self):
        pass


# ======================================================================== (a) cache monitor

class CacheMonitor:
    def __init__(self, r, rng):
        from vlib import env, nodes
        from frappy.client import SecopClient
        from frappy.errors import make_secop_error
        from frappy.datatypes import get_datatype
        self.r, self.rng = r, rng
        self.nodes, self.env = nodes, env
        self.SecopClient = SecopClient
        self.make_secop_error = make_secop_error
        self.get_datatype = get_datatype

    def gen_description(self):
        rng = self.rng
        mspecs = [modgen.gen_module(rng, f'm{i}', base=rng.choice(['Module', 'Readable', 'Writable'])) for i in range(rng.choice([1, 2]))]
        events = []
        cfg = {}
        for ms in mspecs:
            ms['export'] = True
            for p in ms['params']:
                p['limits'] = p['check'] = None
            cfg[ms['name']] = modgen.module_cfg(ms, modgen.build_class(ms, events))
        node = self.nodes.Node(cfg).build()
        conn = self.nodes.Conn()
        desc = node.dispatcher.handle_request(conn, ('describe', None, None))[2]
        return json.loads(json.dumps(desc)), mspecs

    def run_redescribed(self):
        """the same client object meets the node again after the node was re-configured: same parameter names, other datatypes.
        The cache entry is the import of the last message with the datatype of the CURRENT description"""
        r, rng = self.r, self.rng
        try:
            desc, mspecs = self.gen_description()
        except BaseException:
            return
        mn = sorted(desc['modules'])[0]
        acc = desc['modules'][mn]['accessibles']
        first = {'_vx_txt': {'type': 'string', 'maxchars': 20}, '_vx_arr': {'type': 'array', 'minlen': 0, 'maxlen': 3, 'members': {'type': 'int', 'min': 0, 'max': 100}},
                 '_vx_st': {'type': 'struct', 'members': {'a': {'type': 'int', 'min': 0, 'max': 100}}}}
        second = {'_vx_txt': {'type': 'blob', 'minbytes': 0, 'maxbytes': 10},
                  '_vx_arr': {'type': 'array', 'minlen': 0, 'maxlen': 3, 'members': {'type': 'scaled', 'scale': 0.5, 'min': 0, 'max': 200}},
                  '_vx_st': {'type': 'struct', 'members': {'a': {'type': 'scaled', 'scale': 0.1, 'min': 0, 'max': 1000}}}}
        wires = {'_vx_txt': 'YWJj', '_vx_arr': [2, 4], '_vx_st': {'a': 30}}
        client = self.SecopClient('fake://x', log=None)
        client.activate = False
        for phase, dis in (('first', first), ('second', second)):
            for an, di in dis.items():
                acc[an] = {'description': 'redescribed', 'datainfo': di, 'readonly': True}
            client._init_descriptive_data(json.loads(json.dumps(desc)))
            order = list(wires)
            rng.shuffle(order)
            for an in order:
                line = f'{rng.choice(["update", "reply"])} {mn}:{an} {json.dumps([wires[an], {}])}'.encode()
                client.io = ScriptedIO([line])
                client._running = True
                client._shutdown.clear()
                try:
                    client._SecopClient__rxthread()
                except BaseException as e:
                    r.violation('C12/receive-loop-raises', f'{line[:80]!r}: {type(e).__name__}: {e}'[:200], {'sub': 'redescribed', 'phase': phase})
                    return
                r.count('redescribed_messages')
                entry = client.cache.get((mn, client.internalize_name(an)))
                dt = self.get_datatype(dis[an])
                want = dt.import_value(wires[an])
                got = None if entry is None else entry.value
                if entry is None or entry.readerror is not None or type(got) is not type(want) or got != want:
                    r.violation(f'C12/cache-entry-differs/after-the-node-was-described-anew/{dis[an]["type"]}',
                                f'{phase} description, {mn}:{an} = {dis[an]}: message {wires[an]!r} gives the cache entry {got!r}, the import is {want!r}'[:300],
                                {'sub': 'redescribed', 'phase': phase, 'accessible': an})
                    return
        r.count('redescribed_sequences')
        r.case(('redescribed',), True)

    def run_sequence(self):
        r, rng = self.r, self.rng
        try:
            desc, mspecs = self.gen_description()
        except BaseException as e:
            r.note(f'description generation failed: {type(e).__name__}')
            return
        # a custom accessible may be called like a predefined one with an underscore in front (legal SECoP; a foreign node, or
        # export='_value'): it is another parameter than the predefined one
        if rng.random() < 0.3:
            for mn, md in desc['modules'].items():
                for pre in ('value', 'status', 'target'):
                    if pre in md['accessibles'] and '_' + pre not in md['accessibles'] and rng.random() < 0.6:
                        md['accessibles']['_' + pre] = {'description': 'look-alike', 'datainfo': {'type': 'string', 'maxchars': 40}, 'readonly': True}
                        r.count('look_alike_accessibles')
        client = self.SecopClient('fake://x', log=None)
        client.activate = False
        client._init_descriptive_data(desc)
        for mn, md in desc['modules'].items():
            names = [client.internalize_name(an) for an in md['accessibles']]
            if len(set(names)) != len(names):
                dup = sorted({n for n in names if names.count(n) > 1})
                r.violation('C12/identifiers-collide', f'module {mn}: the accessibles {sorted(md["accessibles"])} are known to the client as {names} ({dup} twice)',
                            {'sub': 'sequence', 'accessibles': sorted(md['accessibles'])})
                return
        params = []   # (module, wire name, internal name, datainfo)
        for mn, md in desc['modules'].items():
            for an, ad in md['accessibles'].items():
                if ad['datainfo'].get('type') != 'command':
                    params.append((mn, an, client.internalize_name(an), ad['datainfo']))
        if not params:
            return
        # ---- callbacks
        calls = []       # (cbid, kind, module, param, payload)
        errors = []
        unhandled = []

        from frappy.client import UnregisterCallback

        def mk(cbid, kind, oneshot=None):
            # oneshot=n: a one-shot callback - it unregisters itself (raises UnregisterCallback) in its n-th call
            # after the registration; that call still counts, later messages must not reach it
            st = {'n': 0, 'armed': False}

            def after_call():
                if oneshot is not None and st['armed']:
                    st['n'] += 1
                    if st['n'] >= oneshot:
                        regs[cbid][5] = 'leaving'
                        r.count('oneshot_callbacks_left')
                        raise UnregisterCallback()
            if kind == 'updateItem':
                def updateItem(module, param, item, _c=cbid):
                    calls.append((_c, 'item', module, param, (item.value, item.timestamp, item.readerror)))
                    after_call()
                updateItem.arm = lambda: st.update(armed=True)
                return updateItem

            def updateEvent(module, param, value, timestamp, readerror, _c=cbid):
                calls.append((_c, 'event', module, param, (value, timestamp, readerror)))
                after_call()
            updateEvent.arm = lambda: st.update(armed=True)
            return updateEvent
        regs = []        # (cbid, key, kind, func, registered_at_message_index)
        client.callbacks['handleError'].clear()
        client.register_callback(None, handleError=lambda e: errors.append(e), unhandledMessage=lambda a, i, d: unhandled.append((a, i, d)))
        pattern = []

        def register(at):
            p = rng.choice(params)
            key = rng.choice([None, p[0], (p[0], p[2])])
            # one register_callback() call may carry several callbacks (one per callback name); a one-shot among them may
            # already leave during the immediate call-back with the cached state ('immediate')
            kinds_ = rng.sample(['updateItem', 'updateEvent'], rng.choice([1, 1, 2]))
            group = []
            for kind in kinds_:
                cbid = len(regs)
                q = rng.random()
                oneshot = rng.choice([1, 1, 2]) if q < 0.35 else None
                immediate = oneshot == 1 and rng.random() < 0.4
                f = mk(cbid, kind, oneshot)
                holder = None
                if oneshot is None and rng.random() < 0.4:
                    # method style (the documented CallbackObject way): the callback is a bound method, and the code that
                    # unregisters it names the method again - an equal, but not the same object
                    class Holder:
                        def updateItem(self, module, param, item, _c=cbid):
                            calls.append((_c, 'item', module, param, (item.value, item.timestamp, item.readerror)))

                        def updateEvent(self, module, param, value, timestamp, readerror, _c=cbid):
                            calls.append((_c, 'event', module, param, (value, timestamp, readerror)))
                    Holder.updateItem.arm = Holder.updateEvent.arm = lambda: None
                    holder = Holder()
                    f = getattr(holder, kind)
                    r.count('method_style_callbacks')
                if immediate:
                    f.arm()
                regs.append([cbid, key, kind, f, at, True, holder])
                group.append((cbid, kind, f, immediate))
                pattern.append(('reg', 'node' if key is None else 'module' if isinstance(key, str) else 'param', kind) +
                               (('oneshot', oneshot) if oneshot else ()) + (('immediate',) if immediate else ()) +
                               (('same-call',) if len(kinds_) > 1 else ()))
            n0 = len(calls)
            snapshot = {k: v for k, v in client.cache.items()}
            client.register_callback(key, **{kind: f for cbid, kind, f, _ in group})
            for cbid, kind, f, _ in group:
                f.arm()
                if regs[cbid][5] == 'leaving':
                    regs[cbid][5] = False            # left during the registration itself
            # registration calls back immediately with the cached state
            if key is None:
                want = list(snapshot)
            elif isinstance(key, str):
                want = [k for k in snapshot if k[0] == key]
            else:
                want = [key] if key in snapshot else []
            for cbid, kind, f, _ in group:
                r.count('registration_calls_checked')
                got = [(c[2], c[3]) for c in calls[n0:] if c[0] == cbid]
                if sorted(got) != sorted(want):
                    r.violation('C12/registration-callback-differs', f'registering at key {key!r}: {kind} called for {got[:4]}, cache has {want[:4]}',
                                {'sub': 'cache', 'pattern': pattern})
                    return False
            if any(c[0] not in [g[0] for g in group] for c in calls[n0:]):
                r.violation('C12/registration-callback-differs', f'registering at key {key!r} called other callbacks', {'sub': 'cache', 'pattern': pattern})
                return False
            return True
        for _ in range(rng.choice([0, 1, 2, 3, 4])):
            if not register(0):
                return
        # ---- message sequence
        now0 = time.time()
        msgs = []
        expected_cache = {}
        kinds = set()
        nmsg = rng.randint(3, 25)
        lines = []
        script = []     # per line: ('msg', (m, p), expected entry) | ('bad',) | ('unhandled',) | ('ctl', fn)
        for i in range(nmsg):
            mn, an, iname, di = rng.choice(params)
            q = rng.random()
            ident = f'{mn}:{an}'
            shorthand = None
            if an in ('value', 'target') and rng.random() < 0.4:
                ident = mn                      # default accessible shorthand: 'changed m' means m:target, anything else m:value
                shorthand = an
            t = rng.choice([now0 - 5, now0 - 0.001, now0 + 3600, None])
            qual = {} if t is None else {'t': t}
            if q < 0.45:
                w = gen_dt.gen_valid(di, rng, True)
                w = gen_dt.complete(di, w, rng)
                action = rng.choice(['update', 'update', 'reply', 'changed'])
                if shorthand == 'target':
                    action = 'changed'
                elif shorthand == 'value' and action == 'changed':
                    action = 'update'
                line = f'{action} {ident} {json.dumps([w, qual])}'
                if rng.random() < 0.03:
                    # stamped by the node with the current time, after the receiver has been idle for a moment
                    holder = {}

                    def live(_a=action, _i=ident, _w=w, _h=holder):
                        _h['t'] = time.time()
                        return f'{_a} {_i} {json.dumps([_w, {"t": _h["t"]}])}'.encode('utf-8')
                    line = live
                    t = holder
                    kinds.add('live-timestamp')
                script.append(('msg', (mn, iname), ('value', w, t, di)))
                kinds.add(action)
            elif q < 0.65:
                action = rng.choice(['error_update', 'error_read'])
                if shorthand == 'target':
                    ident = f'{mn}:{an}'
                cls = rng.choice(['HardwareError', 'CommunicationFailed', 'RangeError', 'NoSuchErrorClass', 'InternalError', 'Disabled'])
                text = rng.choice(['boom', 'x y', 'ä€', '', 'boom', 'ConfigError: first line\nsecond line', 'HardwareError: a\n  b\nc',
                                   'two\nlines', 'RangeError: single line', 'NoSuchName: x\ny'])
                line = f'{action} {ident} {json.dumps([cls, text, qual])}'
                script.append(('msg', (mn, iname), ('error', cls, text, t)))
                kinds.add(action)
            elif q < 0.75:
                line = rng.choice([f'update {mn}:nosuch [1, {{}}]', f'update nosuchmod:{an} [1, {{}}]', 'update nosuch [1, {}]',
                                   f'pong tok [null, {{"t": {now0}}}]', 'active', f'done {mn}:x [null, {{}}]', 'describing . {}'])
                script.append(('unhandled',))
                kinds.add('unknown')
            elif q < 0.9:
                w = gen_dt.gen_valid(di, rng, True)
                if shorthand == 'target':
                    ident = f'{mn}:{an}'
                line = rng.choice([f'update {ident} {{bad', f'update {ident} [1', 'update', f'update {ident}', f'update {ident} 5', f'update {ident} [1]',
                                   f'update {ident} "x"', '\xff\xfe', f'error_update {ident} ["X"]', f'update {ident} [{json.dumps(gen_dt.mutate(di, w, rng), default=str)}, {{}}]',
                                   f'update {ident} [1, 2]', f'update {ident} null'])
                script.append(('bad', (mn, iname), di, line))
                kinds.add('malformed')
            else:
                script.append(('ctl',))
                line = None
                kinds.add('registration-change')
            lines.append(line)
        # feed line by line through the real receive loop (one loop run per line keeps control for registrations)
        fed = 0
        for i, (line, sc) in enumerate(zip(lines, script)):
            if sc[0] == 'ctl':
                if regs and rng.random() < 0.4:
                    reg = rng.choice(regs)
                    if reg[5] is True:
                        client.unregister_callback(reg[1], **{reg[2]: reg[3] if reg[6] is None else getattr(reg[6], reg[2])})
                        reg[5] = False
                        pattern.append(('unreg',))
                elif not register(i):
                    return
                continue
            n0, e0, u0 = len(calls), len(errors), len(unhandled)
            before = dict(client.cache)
            raw = line if callable(line) else line.encode('utf-8') if '\xff' not in line else b'\xff\xfe'
            client.io = ScriptedIO([raw])
            client._running = True
            client._shutdown.clear()
            t_before = time.time()
            try:
                client._SecopClient__rxthread()
            except BaseException as e:
                r.violation('C12/receive-loop-raises', f'{line[:80]!r}: {type(e).__name__}: {e}'[:200], {'sub': 'cache', 'line': line})
                return
            t_after = time.time()
            fed += 1
            r.count('messages_fed')
            new = calls[n0:]
            leaving_now = [reg for reg in regs if reg[5] == 'leaving']
            for reg in leaving_now:
                reg[5] = False
            if callable(line):
                # the line as it was really sent, with its time stamp
                live_t = sc[2][2]['t']
                sc = (sc[0], sc[1], sc[2][:2] + (live_t,) + sc[2][3:] + ('live',))
                line = f'<live line stamped {live_t}>'
                r.count('live_timestamps_checked')
            case = {'sub': 'cache', 'line': line[:300], 'pattern': pattern, 'kinds': sorted(kinds)}
            if sc[0] == 'msg':
                key = sc[1]
                # one-shot callbacks that left during this message were still called for it
                active = [reg for reg in regs if (reg[5] or reg in leaving_now) and (reg[1] is None or reg[1] == key[0] or reg[1] == key)]
                r.count('callback_counts_checked')
                got_ids = [c[0] for c in new]
                if sorted(got_ids) != sorted(reg[0] for reg in active):
                    r.violation('C12/callback-count', f'{len(active)} callbacks registered for {key}, invoked: {got_ids}', case)
                    return
                if any((c[2], c[3]) != key for c in new):
                    r.violation('C12/callback-wrong-parameter', f'{new[:2]}', case)
                    return
                entry = client.cache.get(key)
                r.count('cache_entries_checked')
                bad = self.check_entry(entry, sc[2], t_before, t_after)
                if bad:
                    r.violation(f'C12/cache-entry-differs/{bad}', f'{line[:120]} -> cache {entry!r}'[:300], case)
                    return
                for c in new:
                    if not self.same_payload(c[4], entry):
                        r.violation('C12/callback-payload-differs-from-cache', f'{c[4]!r} vs {entry!r}'[:300], case)
                        return
                expected_cache[key] = entry
                others = {k: v for k, v in client.cache.items() if k != key}
                if others != {k: v for k, v in before.items() if k != key}:
                    r.violation('C12/other-cache-entries-changed', line[:100], case)
                    return
            elif sc[0] == 'unhandled':
                if new or dict(client.cache) != before:
                    r.violation('C12/unknown-message-changes-state', f'{line[:100]}: {new[:2]}', case)
                    return
                if len(unhandled) == u0 and len(errors) == e0:
                    r.violation('C12/unknown-message-not-reported', line[:100], case)
                    return
            else:
                r.count('malformed_messages')
                # a malformed message may turn out to be importable (mutation gave a valid value): then it is a normal update
                if dict(client.cache) != before:
                    key = sc[1]
                    entry = client.cache.get(key)
                    ok = False
                    try:
                        parts = line.split(' ', 2)
                        data = json.loads(parts[2])
                        ok = isinstance(data, list) and len(data) == 2 and isinstance(data[1], dict) and \
                            refdt.classify_wire(sc[2], data[0]) != 'reject' or self.importable(sc[2], data[0])
                    except Exception:
                        ok = False
                    if not ok:
                        r.violation('C12/malformed-message-changes-cache', f'{line[:120]} -> {entry!r}'[:300], case)
                        return
                elif len(errors) == e0 and len(unhandled) == u0:
                    r.violation('C12/malformed-message-not-reported', line[:120], case)
                    return
        r.count('sequences')
        r.case(('cache', tuple(sorted(kinds)), tuple(pattern[:6])), bool(kinds & {'malformed', 'error_update', 'error_read', 'unknown'}))
        if r.want_sample():
            r.sample({'messages': [(l[:100] if isinstance(l, str) else '<live line>') for l in lines if l][:6], 'callback_pattern': pattern[:6]})

    def importable(self, di, w):
        try:
            dt = self.get_datatype(di)
            dt.import_value(w)
            return True
        except Exception:
            return False

    def check_entry(self, entry, exp, t_before, t_after):
        if entry is None:
            return 'missing'
        if exp[0] == 'value':
            _, w, t, di = exp[:4]
            if exp[4:] == ('live',) and entry.timestamp != t:
                # stamped by the node while the receiver was waiting: not in the future when it is processed, so it is kept as it is
                return 'timestamp-of-live-message-changed'
            if entry.readerror is not None:
                return 'error-instead-of-value'
            dt = self.get_datatype(di)
            try:
                back = json.loads(json.dumps(dt.export_value(entry.value)))
            except Exception:
                return 'value-not-exportable'
            if not refdt.same_wire(di, w, back):
                return 'value'
        else:
            _, cls, text, t = exp
            want = self.make_secop_error(cls, text)
            if entry.readerror is None or type(entry.readerror) is not type(want) or str(entry.readerror) != str(want):
                return 'readerror'
            # independent of frappy's own rebuilding: the complete message the node reported survives (a leading
            # '<error class>: ' may be turned into the class of the error)
            import re
            m_ = re.match(r'(\w+): ', text)
            rest = text[m_.end():] if m_ else text
            if rest not in str(entry.readerror) and text not in str(entry.readerror):
                return 'readerror-text-incomplete'
            if entry.value is not None:
                return 'value-with-error'
        if entry.timestamp is None or entry.timestamp > t_after + 1e-6:
            return 'timestamp-in-future'
        if t is not None and t <= t_before and entry.timestamp != t:
            return 'timestamp'
        if t is None and not t_before - 1e-6 <= entry.timestamp <= t_after + 1e-6:
            return 'timestamp-default'
        return None

    @staticmethod
    def same_payload(payload, entry):
        v, t, e = payload
        return v == entry.value and t == entry.timestamp and e is entry.readerror


# ======================================================================== (b) end to end

class EndToEnd:
    def __init__(self, r, rng):
        from vlib import env, nodes
        from frappy.client import SecopClient
        from frappy.protocol.interface.tcp import TCPServer
        from frappy.errors import SECoPError
        self.r, self.rng = r, rng
        self.nodes, self.env = nodes, env
        self.SecopClient, self.TCPServer, self.SECoPError = SecopClient, TCPServer, SECoPError

    def serve(self, node):
        s = socket.socket()
        s.bind(('127.0.0.1', 0))
        port = s.getsockname()[1]
        s.close()
        srv = self.TCPServer('tcp', node.log.getChild('tcp'), {'uri': f'tcp://{port}'}, node)
        t = threading.Thread(target=srv.serve_forever, daemon=True)
        t.start()
        return srv, port

    def run_node(self):
        r, rng = self.r, self.rng
        import frappy.core as C
        from vlib import dtbuild
        from frappy.errors import HardwareError, RangeError, IsBusyError
        log = []
        specs = []
        ns = {'__module__': __name__}
        for i in range(4):
            spec = modgen.strip_private(gen_dt.gen_tree(rng, rng.choice([0, 0, 1, 2])))
            name = f'p{i}'
            specs.append((name, spec))
            ns[name] = C.Parameter(f'par {i}', dtbuild.build(spec), readonly=False,
                                   default=gen_dt.to_py(spec, gen_dt.complete(spec, gen_dt.gen_valid(spec, rng, True), rng)))

            def wr(self, value, _n=name):
                log.append(('write', _n, value))
                if self.fail:
                    raise self.fail.pop(0)
                if _n in self.coerce:
                    # the hardware takes another value than the one written (rounding, clamping): that is what comes back
                    value = self.coerce.pop(_n)
                    log.append(('write-returned', _n, value))
                return value

            def rd(self, _n=name):
                log.append(('read', _n, None))
                if self.fail:
                    raise self.fail.pop(0)
                return self.parameters[_n].value
            ns['write_' + name] = wr
            ns['read_' + name] = rd
        aspec = modgen.strip_private(gen_dt.gen_leaf(rng))
        rspec = modgen.strip_private(gen_dt.gen_leaf(rng))
        rval = gen_dt.gen_valid(rspec, rng, True)

        def echo(self, arg):
            """command"""
            log.append(('cmd', 'echo', arg))
            return gen_dt.to_py(rspec, rval)
        ns['echo'] = C.Command(dtbuild.build(aspec), result=dtbuild.build(rspec))(echo)
        ns['fail'] = None
        ns['coerce'] = None
        cls = type('E2E', (C.Module,), ns)
        self.remote_cls = cls
        node = self.nodes.Node({'mod': {'cls': cls, 'description': 'e2e'}}).build()
        mod = node.secnode.modules['mod']
        mod.fail = []
        mod.coerce = {}
        srv, port = self.serve(node)
        client = None
        pnode = psrv = pclient = None
        case = {'sub': 'e2e', 'specs': [s for _, s in specs], 'arg': aspec, 'result': rspec}
        try:
            client = self.SecopClient(f'tcp://127.0.0.1:{port}', log=None)
            client.connect(5)
            if not self.exercise(client, 'mod', specs, aspec, rspec, rval, log, mod, case, 'direct'):
                return
            # ---- the same through a proxy node
            pnode, psrv, pport = self.proxy_node(port)
            if pnode is None:
                return
            pclient = self.SecopClient(f'tcp://127.0.0.1:{pport}', log=None)
            pclient.connect(5)
            self.exercise(pclient, 'pmod', specs, aspec, rspec, rval, log, mod, case, 'proxy')
        except (TimeoutError, ConnectionError, OSError) as e:
            r.inconclusive.append(f'end-to-end run aborted by {type(e).__name__}: {e}'[:200])
        finally:
            for c in (pclient, client):
                try:
                    if c:
                        c.disconnect()
                except Exception:
                    pass
            for n in (pnode,):
                try:
                    if n:
                        n.secnode.shutdown_modules()
                except Exception:
                    pass
            for s in (psrv, srv):
                if s:
                    s.shutdown()
                    s.server_close()

    def proxy_node(self, port):
        from frappy.proxy import proxy_class
        try:
            cfg = {'remote': {'cls': 'frappy.proxy.SecNode', 'description': 'remote', 'uri': f'tcp://127.0.0.1:{port}'},
                   'pmod': {'cls': proxy_class(self.remote_cls, 'PMod'), 'description': 'proxy of mod', 'module': 'mod', 'io': 'remote'}}
            pnode = self.nodes.Node(cfg, testonly=False, name='pnode').build()
        except BaseException as e:
            self.r.note(f'proxy node could not be built: {type(e).__name__}: {e}'[:200])
            self.r.count('proxy_node_failed')
            return None, None, None
        psrv, pport = self.serve(pnode)
        return pnode, psrv, pport

    def exercise(self, client, modname, specs, aspec, rspec, rval, log, mod, case, via):
        r, rng = self.r, self.rng
        from vlib import dtbuild
        from frappy.errors import HardwareError, RangeError
        suffix = 'proxy_' if via == 'proxy' else ''
        pnames = client.modules[modname]['parameters']
        for name, spec in specs:
            if name not in pnames:
                r.violation(f'C12/e2e/{via}/parameter-missing', f'{name} not in the client description', case)
                return False
            sdt = dtbuild.build(spec)
            cdt = pnames[name]['datatype']
            for attempt in range(3):
                w = gen_dt.complete(spec, gen_dt.gen_valid(spec, rng, True), rng)
                v = cdt.import_value(json.loads(json.dumps(w)))
                n0 = len(log)
                if attempt == 1:
                    w_ret = gen_dt.complete(spec, gen_dt.gen_valid(spec, rng, True), rng)
                    mod.coerce[name] = sdt(gen_dt.to_py(spec, w_ret))
                    r.count(f'e2e_{suffix}coercing_writes')
                try:
                    item = client.setParameter(modname, name, v)
                except self.SECoPError as e:
                    r.violation(f'C12/e2e/{via}/valid-write-refused/{spec["type"]}', f'setParameter({name}, {json.dumps(w)[:80]}) -> {type(e).__name__}: {e}'[:250], dict(case, value=w))
                    return False
                r.count(f'e2e_{suffix}writes')
                r.case((via, 'write', spec['type']), spec['type'] in ('array', 'tuple', 'struct', 'blob', 'scaled'))
                writes = [e for e in log[n0:] if e[0] == 'write' and e[1] == name]
                if len(writes) != 1:
                    r.violation(f'C12/e2e/{via}/driver-call-count', f'{len(writes)} driver writes for one setParameter', dict(case, value=w))
                    return False
                got = json.loads(json.dumps(sdt.export_value(writes[0][2])))
                if not refdt.same_wire(spec, w, got):
                    r.violation(f'C12/e2e/{via}/driver-value-differs/{spec["type"]}', f'caller passed {json.dumps(w)[:100]}, driver got {json.dumps(got)[:100]}', dict(case, value=w))
                    return False
                returned = [e for e in log[n0:] if e[0] == 'write-returned' and e[1] == name]
                if returned:
                    got = json.loads(json.dumps(sdt.export_value(returned[0][2])))      # what the driver returned
                back = json.loads(json.dumps(cdt.export_value(item.value))) if item.readerror is None else repr(item.readerror)
                if item.readerror is not None or not refdt.same_wire(spec, got, back):
                    r.violation(f'C12/e2e/{via}/cache-differs-from-driver/{spec["type"]}', f'driver returned {json.dumps(got)[:100]}, cache holds {str(back)[:100]}', dict(case, value=w))
                    return False
                # read
                n0 = len(log)
                item = client.getParameter(modname, name)
                r.count(f'e2e_{suffix}reads')
                back = json.loads(json.dumps(cdt.export_value(item.value))) if item.readerror is None else repr(item.readerror)
                if item.readerror is not None or not refdt.same_wire(spec, got, back):
                    r.violation(f'C12/e2e/{via}/read-differs/{spec["type"]}', f'node holds {json.dumps(got)[:100]}, getParameter gave {str(back)[:100]}', dict(case, value=w))
                    return False
            # text form offered by the cache item is valid input of setParameterFromString
            if via == 'direct' and not has_float(spec):     # text of floats is lossy (%g): judged in C02 on the text only
                txt = str(client.cache[modname, name])
                n0 = len(log)
                try:
                    item = client.setParameterFromString(modname, name, txt)
                    writes = [e for e in log[n0:] if e[0] == 'write' and e[1] == name]
                    ok = len(writes) == 1 and item.readerror is None and str(item) == txt
                    why = f'{len(writes)} driver writes, cache text {str(item)[:60]!r}'
                except Exception as e:
                    ok, why = False, f'{type(e).__name__}: {e}'[:150]
                r.count('e2e_from_string')
                if not ok:
                    r.violation(f'C12/e2e/direct/set-from-string-fails/{spec["type"]}', f'setParameterFromString({name}, {txt[:60]!r}): {why}', dict(case, text=txt))
                    return False
        # driver errors arrive as the same SECoP class
        name, spec = specs[0]
        import frappy.errors as FE
        driver_errors = [HardwareError('hw broken'), RangeError('too far')]
        # every error class a driver may raise (errors of the protocol layer itself are not a driver's business)
        for cn in ('TimeoutSECoPError', 'CommunicationFailedError', 'IsBusyError', 'IsErrorError', 'DisabledError', 'ImpossibleError',
                   'NotImplementedSECoPError', 'ReadFailedError', 'OutOfRangeError', 'CommandFailedError', 'BadValueError', 'WrongTypeError'):
            if hasattr(FE, cn) and rng.random() < 0.35:
                driver_errors.append(getattr(FE, cn)('driver says no'))
        for exc in driver_errors:
            entry_ = client.cache[modname, name]
            if entry_.readerror is not None or entry_.value is None:
                # (a write refused by the driver leaves the cache entry alone: it still holds the last good value)
                r.violation(f'C12/e2e/{via}/cache-entry-in-error-after-a-refused-write', f'{modname}:{name}: after a change request the driver refused the cache entry is '
                            f'({entry_.value!r}, error {entry_.readerror!r})'[:250], case)
                return False
            mod.fail.append(exc)
            try:
                client.setParameter(modname, name, client.cache[modname, name].value)
                r.violation(f'C12/e2e/{via}/driver-error-lost', f'{type(exc).__name__} raised by the driver, setParameter returned normally', case)
                return False
            except self.SECoPError as e:
                r.count(f'e2e_{"proxy_" if via == "proxy" else ""}driver_errors')
                if getattr(e, 'name', None) != exc.name:
                    r.violation(f'C12/e2e/{via}/driver-error-class-changed/{type(exc).__name__}', f'{type(exc).__name__} ({exc.name}) arrived as {type(e).__name__} ({getattr(e, "name", None)})', case)
                    return False
            finally:
                del mod.fail[:]
        # an asynchronous error on the node and its recovery must arrive in the cache (through the proxy as well)
        name, spec = specs[1]
        good = client.cache[modname, name]
        mod.announceUpdate(name, None, HardwareError('async failure'))
        deadline = time.time() + 5
        while time.time() < deadline and not client.cache[modname, name].readerror:
            time.sleep(0.01)
        item = client.cache[modname, name]
        r.count(f'e2e_{suffix}async_errors')
        if type(item.readerror).__name__ != 'HardwareError':
            r.violation(f'C12/e2e/{via}/async-error-not-mirrored', f'node announced HardwareError for {name}, client cache holds {item!r}'[:200], case)
            return False
        mod.announceUpdate(name, mod.parameters[name].value)
        deadline = time.time() + 5
        while time.time() < deadline and client.cache[modname, name].readerror:
            time.sleep(0.01)
        item = client.cache[modname, name]
        if item.readerror is not None or item.value != good.value:
            r.violation(f'C12/e2e/{via}/recovery-not-mirrored', f'node recovered {name}, client cache holds {item!r}'[:200], case)
            return False
        # command
        cdt = client.modules[modname]['commands']['echo']['datatype']
        for _ in range(3):
            w = gen_dt.gen_valid(aspec, rng, True)
            v = cdt.argument.import_value(json.loads(json.dumps(w)))
            n0 = len(log)
            try:
                res, qual = client.execCommand(modname, 'echo', v)
            except self.SECoPError as e:
                r.violation(f'C12/e2e/{via}/valid-command-refused/{aspec["type"]}', f'{type(e).__name__}: {e}'[:200], case)
                return False
            r.count(f'e2e_{suffix}commands')
            cmds = [e for e in log[n0:] if e[0] == 'cmd']
            from vlib import dtbuild as B
            got = json.loads(json.dumps(B.build(aspec).export_value(cmds[0][2]))) if len(cmds) == 1 else None
            if len(cmds) != 1 or not refdt.same_wire(aspec, w, got):
                r.violation(f'C12/e2e/{via}/command-argument-differs/{aspec["type"]}', f'passed {json.dumps(w)[:80]}, driver got {json.dumps(got)[:80]}', case)
                return False
            back = json.loads(json.dumps(cdt.result.export_value(res)))
            if not refdt.same_wire(rspec, rval, back):
                r.violation(f'C12/e2e/{via}/command-result-differs/{rspec["type"]}', f'driver returned {json.dumps(rval)[:80]}, caller got {json.dumps(back)[:80]}', case)
                return False
        return True


def run_shard(shard):
    r = rec.Recorder(shard)
    rng = random.Random(f'C12/{shard["seed"]}/{shard["idx"]}')
    cm = CacheMonitor(r, rng)
    for _ in range(shard['n_seq']):
        cm.run_sequence()
    for _ in range(6):
        cm.run_redescribed()
    ee = EndToEnd(r, rng)
    for _ in range(shard['n_e2e']):
        ee.run_node()
    r.count('e2e_proxy_writes', 0)
    return r.result()


def replay(case):
    r = rec.Recorder()
    rng = random.Random(4)
    if case.get('sub') == 'e2e':
        ee = EndToEnd(r, rng)
        for _ in range(10):
            ee.run_node()
    else:
        cm = CacheMonitor(r, rng)
        for _ in range(400):
            cm.run_sequence()
    return r.result()
