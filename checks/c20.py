"""C20 - logging: exact per-connection routing, rotation keeps the newest files"""
import datetime
import os
import random
import shutil
import tempfile
import types

from vlib import rec

ID = 'C20'
LEVEL = 'exploration'
RULE = ('(a) random sequences of {logging <module|.> <level>, emit(module, level), *IDN?, disconnect} on 1..3 fake '
        'connections through the real dispatcher and real mlzlog loggers; table model level[conn][module] decides every '
        'delivery. (b) log directories with arbitrary sets of dated files, gaps and foreign files, retention 0..10, '
        '1..5 successive rotations of the real LogfileHandler under a patched clock. distinct = (operation sequence '
        'shape) / (directory shape, retention); non-trivial = sequence with >= 2 connections or a reset, directory with '
        'more dated files than the retention')
ASSUMPTIONS = ['level names are matched case-insensitively and numeric levels are accepted (implementation convenience, '
               'modelled as the corresponding level); unknown names must be refused and change nothing',
               'the clock of mlzlog is replaced by a shim (strftime/time/localtime/mktime)',
               'removal or survival of unrelated foreign files in the log directory is recorded, not judged; files named like a '
               'log file of the handler plus a suffix (.gz, ~, .1) are not log files: they neither count for the retention '
               'nor may they be removed']
REQUIRED = ['routing_sequences', 'emits', 'deliveries_expected', 'silences_expected', 'resets', 'invalid_level_requests',
            'rotations', 'rotations_with_surplus', 'concurrent_disconnects_injected', 'concurrent_logging_requests_injected',
            'subscription_changes_injected_into_emits', 'concurrent_emits_injected', 'records_logged_during_a_logging_request']

N_SEQ = {'quick': 200, 'thorough': 10000}
N_DIR = {'quick': 200, 'thorough': 10000}

LEVELNO = {'debug': 10, 'comlog': 15, 'info': 20, 'warning': 30, 'error': 40}
OFF = 99


def plan(tier, seed, scale=1.0):
    return [{'idx': i, 'n_seq': int(N_SEQ[tier] * scale), 'n_dir': int(N_DIR[tier] * scale)} for i in range(16)]


# ---------------------------------------------------------------- (a) routing

def model_level(level):
    """-> numeric level | None (must be refused) for a requested level"""
    if isinstance(level, str):
        l = level.lower()
        if l == 'off':
            return OFF
        return LEVELNO.get(l)
    if isinstance(level, bool):
        return None
    if isinstance(level, int) and level in list(LEVELNO.values()) + [OFF]:
        return level
    return None


class Routing:
    def __init__(self, r):
        self.r = r
        import mlzlog
        from frappy.logging import init_remote_logging
        from vlib import nodes
        from frappy.modules import Readable
        self.mlzlog, self.nodes, self.Readable = mlzlog, nodes, Readable
        mlzlog.setLoggerClass(mlzlog.MLZLogger)
        self.init_remote_logging = init_remote_logging
        self.k = 0
        from vlib import lineinject
        from frappy.logging import RemoteLogHandler
        self.inj = lineinject.LineInjector(RemoteLogHandler.set_conn_level, RemoteLogHandler.handle, name='c20-inject', instructions=True)

    NAMES = [['mod0', 'mod1', 'mod2'], ['T', 't', 'mod2'], ['heater', 'Heater', 'HEATER'], ['mod0', 'mod1', 'mod2']]

    def make_node(self, nmod, hidden=(), names=None):
        names = names or self.NAMES[0]
        self.k += 1
        root = self.mlzlog.MLZLogger(f'c20root{self.k}')
        root.setLevel(10)
        nodelog = root.getChild('n')
        self.init_remote_logging(nodelog)
        cfg = {names[i]: {'cls': self.Readable, 'description': 'x'} for i in range(nmod)}
        for i in range(nmod):
            if hidden and hidden[i % len(hidden)]:
                cfg[names[i]]['export'] = False      # a hidden module (io, helper): remote logging works for it like for any other
        node = self.nodes.Node(cfg, log=nodelog).build()
        return node

    def run_sequence(self, rng):
        r = self.r
        nmod = rng.choice([1, 2, 3])
        nconn = rng.choice([1, 2, 3])
        names = rng.choice(self.NAMES)          # also module names that differ in the case of letters only
        node = self.make_node(nmod, [rng.random() < 0.3 for _ in range(nmod)], names)
        disp = node.dispatcher
        mods = names[:nmod]
        conns = []
        for i in range(nconn):
            c = self.nodes.Conn(f'c{i}')
            disp.add_connection(c)
            conns.append(c)
        table = {c.n: {} for c in conns}    # conn id -> module -> level
        ops = []
        uniq = 0
        had_reset = False
        for step in range(rng.randint(6, 30)):
            q = rng.random()
            case = {'sub': 'routing', 'nmod': nmod, 'nconn': nconn, 'ops': ops}
            if q < 0.35:
                ci = rng.randrange(nconn)
                c = conns[ci]
                spec = rng.choice(mods + ['.', '.', None, ''])
                level = rng.choice(['debug', 'info', 'warning', 'error', 'comlog', 'off', 'off', 'Info', 'DEBUG', 'OFF',
                                    'verbose', 'trace', '', 5, None, 20, 99, 1.5, ['info'], True])
                ops.append(['logging', ci, spec, level if isinstance(level, (str, int, float, type(None))) else repr(level)])
                want = model_level(level)
                before = {k: dict(v) for k, v in table.items()}
                # a second connection goes away (its own thread, outside the request lock) exactly before the k-th line the
                # request executes inside RemoteLogHandler.set_conn_level
                gone = None
                if self.inj is not None and nconn > 1 and want is not None and rng.random() < 0.3:
                    cj = rng.choice([j for j in range(nconn) if j != ci])
                    gone = (cj, conns[cj])
                    k = rng.randint(1, 14)
                    ops[-1].append(f'while connection {cj} disconnects at line {k}')
                    self.inj.arm(k, lambda cc=conns[cj]: disp.remove_connection(cc))
                emitting = None
                if gone is None and self.inj is not None and want is not None and rng.random() < 0.3:
                    # a module's thread logs a record while the request is inside set_conn_level (the delivery of THAT record
                    # may go either way): the subscription the request makes holds for every later record
                    mx = spec if spec in mods else rng.choice(mods)
                    k = rng.randint(1, 14)
                    emitting = (mx, k)
                    ops[-1].append(f'while module {mx} logs a record at line {k}')
                    self.inj.arm(k, lambda mx=mx: node.secnode.modules[mx].log.log(LEVELNO['error'], '%s', 'concurrent record'))
                try:
                    reply = disp.handle_request(c, ('logging', spec, level))
                    ok = True
                except Exception as e:
                    ok = False
                    reply = type(e).__name__
                if emitting is not None:
                    if self.inj.disarm():
                        r.count('records_logged_during_a_logging_request')
                    for c_ in conns:
                        del c_.out[:]
                if gone is not None:
                    if not self.inj.disarm():
                        disp.remove_connection(gone[1])       # line not reached: the disconnect happens right afterwards
                    else:
                        r.count('concurrent_disconnects_injected')
                    del table[gone[1].n]
                    cnew = self.nodes.Conn(f'c{gone[0]}c')
                    disp.add_connection(cnew)
                    conns[gone[0]] = cnew
                    table[cnew.n] = {}
                    had_reset = True
                if want is None:
                    r.count('invalid_level_requests')
                    if ok:
                        r.violation('C20/routing/invalid-level-accepted', f'logging {spec!r} {level!r} answered {reply!r}', case)
                        return
                else:
                    if not ok:
                        r.violation('C20/routing/valid-level-refused', f'logging {spec!r} {level!r} raised {reply}', case)
                        return
                    targets = mods if spec in ('.', None, '') else [spec]
                    for m in targets:
                        if want == OFF:
                            table[c.n].pop(m, None)
                        else:
                            table[c.n][m] = want
                    if reply[0] != 'logging':
                        r.violation('C20/routing/wrong-reply', repr(reply), case)
                        return
            elif q < 0.85:
                m = rng.choice(mods)
                lname = rng.choice(list(LEVELNO))
                uniq += 1
                text = f'msg-{uniq}'
                ops.append(['emit', m, lname])
                for c in conns:
                    del c.out[:]
                if self.inj is not None and rng.random() < 0.2:
                    # while the module's thread handles this record, a connection changes its subscription / goes away
                    # exactly before the k-th line of RemoteLogHandler.handle: the delivery of THIS record may go either
                    # way, every later record follows the new table
                    ci = rng.randrange(nconn)
                    kind = rng.choice(['logging', 'logging', 'idn', 'disconnect', 'emit', 'emit'])
                    m2, l2 = rng.choice(mods + ['.']), rng.choice(['debug', 'info', 'warning', 'error', 'off', 'off'])
                    if kind == 'emit':
                        # another module's thread creates a record of its own at that point: the table does not change and
                        # BOTH records are delivered according to it
                        m2, l2 = rng.choice(mods), rng.choice(list(LEVELNO))
                        uniq += 1
                        text2 = f'msg-{uniq}'
                    k = rng.randint(1, 14)
                    ops[-1].append(f'while connection {ci}: {kind} {m2} {l2} at line {k}')
                    cc = conns[ci]

                    def change(cc=cc, kind=kind, m2=m2, l2=l2):
                        if kind == 'logging':
                            disp.handle_request(cc, ('logging', m2, l2))
                        elif kind == 'emit':
                            node.secnode.modules[m2].log.log(LEVELNO[l2], '%s', text2)
                        elif kind == 'idn':
                            disp.handle_request(cc, ('*IDN?', None, None))
                        else:
                            disp.remove_connection(cc)
                    self.inj.arm(k, change)
                    raised = None
                    try:
                        node.secnode.modules[m].log.log(LEVELNO[lname], '%s', text)
                    except Exception as e:
                        raised = e
                    finally:
                        if not self.inj.disarm():
                            change()
                        else:
                            r.count('concurrent_emits_injected' if kind == 'emit' else 'subscription_changes_injected_into_emits')
                    if raised is not None:
                        r.violation(f'C20/routing/emit-raises/{type(raised).__name__}',
                                    f'logging a record raised {type(raised).__name__}: {raised} in the emitting thread while connection {ci} '
                                    f'changed its subscription ({kind})', case)
                        return
                    if kind == 'emit':
                        for cj, c in enumerate(conns):
                            for mm, ln, tx in ((m, lname, text), (m2, l2, text2)):
                                got = [msg for msg in c.out if msg[0] == 'log' and msg[2] == tx]
                                lev = table[c.n].get(mm)
                                expected = lev is not None and LEVELNO[ln] >= lev
                                r.count('deliveries_expected' if expected else 'silences_expected')
                                if expected and len(got) != 1:
                                    who = 'of-the-interrupted-thread' if tx == text else 'of-the-second-thread'
                                    r.violation(f'C20/routing/not-delivered/concurrent-emits/{who}' if not got else
                                                'C20/routing/delivered-twice/concurrent-emits',
                                                f'record {mm}:{ln} {who} with level table {table[c.n]} on connection {cj}: {len(got)} '
                                                f'messages, while two threads log at the same time', case)
                                    return
                                if not expected and got:
                                    r.violation('C20/routing/delivered-unexpected/concurrent-emits',
                                                f'record {mm}:{ln} delivered to connection {cj} whose table is {table[c.n]}', case)
                                    return
                        continue
                    if kind == 'logging':
                        lv = model_level(l2)
                        for mm in (mods if m2 == '.' else [m2]):
                            if lv == OFF:
                                table[cc.n].pop(mm, None)
                            else:
                                table[cc.n][mm] = lv
                    elif kind == 'idn':
                        table[cc.n] = {}
                        had_reset = True
                    else:
                        del table[cc.n]
                        cnew = self.nodes.Conn(f'c{ci}d')
                        disp.add_connection(cnew)
                        conns[ci] = cnew
                        table[cnew.n] = {}
                        had_reset = True
                    continue
                node.secnode.modules[m].log.log(LEVELNO[lname], '%s', text)
                r.count('emits')
                for ci, c in enumerate(conns):
                    got = [msg for msg in c.out if msg[0] == 'log']
                    lev = table[c.n].get(m)
                    expected = lev is not None and LEVELNO[lname] >= lev
                    r.count('deliveries_expected' if expected else 'silences_expected')
                    if expected and len(got) != 1:
                        r.violation('C20/routing/not-delivered' if not got else 'C20/routing/delivered-twice',
                                    f'record {m}:{lname} with level table {table[c.n]} on connection {ci}: {len(got)} messages', case)
                        return
                    if not expected and got:
                        why = 'after-reset' if had_reset and lev is None else 'below-level' if lev is not None else 'not-enabled'
                        r.violation(f'C20/routing/delivered-unexpected/{why}',
                                    f'record {m}:{lname} delivered to connection {ci} whose table is {table[c.n]}', case)
                        return
                    if got and (got[0][1] != f'{m}:{lname}' or got[0][2] != text):
                        r.violation('C20/routing/wrong-message', repr(got[0]), case)
                        return
            elif q < 0.93:
                ci = rng.randrange(nconn)
                ops.append(['idn', ci])
                disp.handle_request(conns[ci], ('*IDN?', None, None))
                table[conns[ci].n] = {}
                had_reset = True
                r.count('resets')
            else:
                ci = rng.randrange(nconn)
                ops.append(['disconnect', ci])
                other = None
                if self.inj is not None and nconn > 1 and rng.random() < 0.4:
                    # another connection sends a logging request exactly before the k-th line of set_conn_level executed
                    # by this disconnect
                    cj = rng.choice([j for j in range(nconn) if j != ci])
                    m2, l2 = rng.choice(mods), rng.choice(['debug', 'info', 'warning', 'error', 'off'])
                    k = rng.randint(1, 14)
                    other = (cj, m2, l2)
                    ops[-1].append(f'while connection {cj} requests logging {m2} {l2} at line {k}')
                    self.inj.arm(k, lambda cc=conns[cj], m2=m2, l2=l2: disp.handle_request(cc, ('logging', m2, l2)))
                disp.remove_connection(conns[ci])
                if other is not None:
                    if not self.inj.disarm():
                        disp.handle_request(conns[other[0]], ('logging', other[1], other[2]))
                    else:
                        r.count('concurrent_logging_requests_injected')
                    lv = model_level(other[2])
                    if lv == OFF:
                        table[conns[other[0]].n].pop(other[1], None)
                    else:
                        table[conns[other[0]].n][other[1]] = lv
                old = conns[ci]
                del table[old.n]
                c = self.nodes.Conn(f'c{ci}b')
                disp.add_connection(c)
                conns[ci] = c
                table[c.n] = {}
                had_reset = True
                r.count('resets')
        r.count('routing_sequences')
        r.case(('routing', nmod, nconn, tuple(o[0] for o in ops)), nconn > 1 or had_reset)
        if r.want_sample() and nconn > 1:
            r.sample({'modules': nmod, 'connections': nconn, 'ops': ops[:14]})


# ---------------------------------------------------------------- (b) rotation

class FakeTime:
    def __init__(self, real):
        self.real = real
        self.day = datetime.date(2024, 3, 1)

    def strftime(self, fmt, t=None):
        if t is None:
            return self.day.strftime(fmt)
        return self.real.strftime(fmt, t)

    def time(self):
        return self.real.mktime(self.day.timetuple()) + 3600

    def localtime(self, t=None):
        return self.real.localtime(self.time() if t is None else t)

    def __getattr__(self, name):
        return getattr(self.real, name)


class Rotation:
    def __init__(self, r):
        self.r = r
        import mlzlog
        import frappy.logging as FL
        import logging
        self.mlzlog, self.FL, self.logging = mlzlog, FL, logging
        self.clock = FakeTime(mlzlog.time)
        mlzlog.time = self.clock
        self.root = tempfile.mkdtemp(prefix='c20-')

    def close(self):
        self.mlzlog.time = self.clock.real
        shutil.rmtree(self.root, ignore_errors=True)

    def run_dir(self, rng):
        r = self.r
        d = os.path.join(self.root, 'logs')
        shutil.rmtree(d, ignore_errors=True)
        name = 'node'
        # the handler is made directly, or by a module with the HasComlog mixin from the general configuration (comlog_days)
        route = rng.choice(['direct', 'direct', 'comlog'])
        base = d if route == 'direct' else os.path.join(d, 'root', 'comlog', 'eq')
        sub = os.path.join(base, name)
        os.makedirs(sub)
        today = datetime.date(2024, 3, 1) + datetime.timedelta(days=rng.randint(0, 400))
        ndated = rng.choice([0, 1, 2, 3, 5, 8, 12])
        ages = sorted(rng.sample(range(1, 40), ndated))
        for a in ages:
            with open(os.path.join(sub, f'{name}-{(today - datetime.timedelta(days=a)).strftime("%Y-%m-%d")}.log'), 'w') as f:
                f.write('old\n')
        foreign = rng.sample(['README', 'zz-notes.txt', 'aaa.log', f'{name}.pid', 'other-2024-01-01.log', '~backup'], rng.choice([0, 0, 1, 2]))
        # near misses: names that start like a log file of this handler but are something else (archives, editor backups)
        if rng.random() < 0.4:
            for _ in range(rng.choice([1, 2, 3])):
                a = rng.randint(0, 45)
                foreign.append(f'{name}-{(today - datetime.timedelta(days=a)).strftime("%Y-%m-%d")}.log' + rng.choice(['.gz', '~', '.1', '.bak', 'x']))
        for fn in foreign:
            with open(os.path.join(sub, fn), 'w') as f:
                f.write('foreign\n')
        keep = rng.choice([0, 1, 2, 3, 5, 7, 10])
        self.clock.day = today
        if route == 'direct':
            h = self.FL.LogfileHandler(d, name, max_days=keep)
        else:
            import frappy.lib
            from frappy.modules import Module
            from vlib import nodes
            how = rng.choice(['int', 'str', 'unset'])
            if how == 'unset':
                keep = 7          # the documented default of comlog_days
            gc = frappy.lib.generalConfig
            saved = gc._config, self.FL.logger.logdir, self.FL.logger.rootname
            try:
                gc.testinit(logdir=d, comlog=True, **({} if how == 'unset' else {'comlog_days': keep if how == 'int' else str(keep)}))
                self.FL.logger.logdir, self.FL.logger.rootname = d, 'root'
                srv = nodes._Srv()
                srv.secnode = type('SN', (), {'name': 'eq', 'equipment_id': 'eq'})()
                mod = nodes.make_module(type('CoMod', (self.FL.HasComlog, Module), {'__module__': __name__}), name, srv=srv)
                mod.earlyInit()
                h = mod._comLog.handlers[0]
            finally:
                gc._config, self.FL.logger.logdir, self.FL.logger.rootname = saved
            r.count('handlers_made_from_the_general_configuration')
            route = f'comlog/{how}'
        rec_ = self.logging.LogRecord('x', 20, __file__, 1, 'hello %s', ('w',), None)
        case = {'sub': 'rotation', 'route': route, 'dated_ages': ages, 'foreign': foreign, 'retention': keep, 'steps': []}
        try:
            h.emit(rec_)       # opens today's file
            nrot = rng.randint(1, 5)
            day = today
            surplus = False
            for k in range(nrot):
                day = day + datetime.timedelta(days=rng.choice([1, 1, 1, 2, 5]))
                self.clock.day = day
                before = sorted(os.listdir(sub))
                dated_before = sorted(f for f in before if f.startswith(name + '-') and f.endswith('.log'))
                try:
                    h.doRollover()
                except Exception as e:
                    r.violation('C20/rotation/raises', f'doRollover raises {type(e).__name__}: {e}'[:200], case)
                    return
                h.emit(rec_)
                after = sorted(os.listdir(sub))
                current = f'{name}-{day.strftime("%Y-%m-%d")}.log'
                case['steps'].append({'day': str(day), 'before': before, 'after': after})
                r.count('rotations')
                earlier = [f for f in dated_before if f != current]
                if keep and len(earlier) > keep - 1:
                    surplus = True
                    r.count('rotations_with_surplus')
                if current not in after:
                    r.violation('C20/rotation/current-file-removed', f'the file being written ({current}) does not exist after the rotation', case)
                    return
                removed = [f for f in before if f not in after]
                if keep == 0:
                    if any(f in dated_before for f in removed):
                        r.violation('C20/rotation/removed-without-retention', f'retention 0 but {removed} removed', case)
                        return
                else:
                    must_keep = sorted(earlier)[-(keep - 1):] if keep > 1 else []
                    lost = [f for f in must_keep if f not in after]
                    if lost:
                        r.violation('C20/rotation/newest-removed', f'retention {keep}: {lost} belong to the {keep - 1} newest earlier files but were removed', case)
                        return
                    bad = [f for f in removed if f in dated_before and f in must_keep]
                    old_left = [f for f in sorted(earlier)[:max(0, len(earlier) - (keep - 1))] if f in after]
                    if old_left:
                        r.violation('C20/rotation/old-files-kept', f'retention {keep}: older files {old_left[:3]} survive the rotation', case)
                        return
                for f in removed:
                    if f not in dated_before and f != 'current':
                        if f.startswith(name + '-'):
                            # not a log file of this handler (the name does not end in .log): only older LOG files may go
                            r.violation('C20/rotation/foreign-file-removed', f'retention {keep}: {f} is not a log file of this handler but was removed', case)
                            return
                        r.count('foreign_files_removed')     # recorded, not judged
            r.case(('rotation', ndated, len(foreign), keep, nrot), surplus)
            if r.want_sample() and surplus:
                r.sample({'retention': keep, 'dated_file_ages_days': ages, 'foreign': foreign, 'last_step': case['steps'][-1]})
        finally:
            try:
                h.close()
            except Exception:
                pass


def run_shard(shard):
    r = rec.Recorder(shard)
    rng = random.Random(f'C20/{shard["seed"]}/{shard["idx"]}')
    rt = Routing(r)
    try:
        for _ in range(shard['n_seq']):
            rt.run_sequence(rng)
    finally:
        r.count('line_injections', rt.inj.injected)
        rt.inj.close()
    ro = Rotation(r)
    try:
        for _ in range(shard['n_dir']):
            ro.run_dir(rng)
    finally:
        ro.close()
    return r.result()


def replay(case):
    r = rec.Recorder()
    rng = random.Random(1)
    if case.get('sub') == 'rotation':
        ro = Rotation(r)
        try:
            for _ in range(300):
                ro.run_dir(rng)
        finally:
            ro.close()
    else:
        rt = Routing(r)
        try:
            for _ in range(300):
                rt.run_sequence(rng)
        finally:
            rt.inj.close()
    return r.result()
