#!/usr/bin/env python3
"""self-tests of the deterministic scheduler (vlib.detsched): an engine bug must not become an alarm.
Small programs with known sets of outcomes are run under every strategy."""
import os
import sys
import time

sys.path.insert(0, os.path.dirname(os.path.dirname(os.path.abspath(__file__))))
from vlib import detsched as D   # noqa: E402

FAIL = []


def check(name, cond, info=''):
    print(('ok   ' if cond else 'FAIL ') + name, info if not cond else '')
    if not cond:
        FAIL.append(name)


def racy_counter(locked):
    state = {'n': 0}
    lock = D.CoLock()

    def worker():
        for _ in range(2):
            if locked:
                lock.acquire()
            v = state['n']
            D.CURRENT.yield_point('between read and write')
            state['n'] = v + 1
            if locked:
                lock.release()

    def root():
        ts = [D.CoThread(target=worker, name=f'w{i}') for i in range(2)]
        for t in ts:
            t.start()
        for t in ts:
            t.join()
    return root, state


def t_lost_update():
    outcomes = set()
    n = 0
    for prefix, s in D.explore_pb(lambda: racy_counter(False)[0], 1):
        n += 1
    # need the state of each run: rebuild with closure capture
    outcomes = set()
    runs = 0

    def mk():
        root, st = racy_counter(False)
        mk.states.append(st)
        return root
    mk.states = []
    for prefix, s in D.explore_pb(mk, 2):
        runs += 1
        check_status = s.status
        outcomes.add(mk.states[-1]['n'])
        assert check_status == 'ok', s.status
    check('pb(2) finds the lost update', min(outcomes) < 4 and 4 in outcomes, (outcomes, runs))
    check('pb(2) exhausts the space', D.explore_pb.complete, runs)
    mk.states = []
    outcomes = set()

    def mk2():
        root, st = racy_counter(True)
        mk.states.append(st)
        return root
    for prefix, s in D.explore_pb(mk2, 2):
        outcomes.add(mk.states[-1]['n'])
    check('with the lock no schedule loses an update', outcomes == {4}, outcomes)
    # randomised strategies find it too
    found = {'rw': 0, 'pct': 0}
    for seed in range(60):
        for strat in (('rw', 0.3), ('pct', 3, 20)):
            root, st = racy_counter(False)
            D.Sched(strat, seed).run(root)
            if st['n'] < 4:
                found[strat[0]] += 1
    check('rw finds the lost update', found['rw'] > 0, found)
    check('pct finds the lost update', found['pct'] > 0, found)


def t_virtual_time():
    res = {}

    def root():
        t0 = D.vtime()
        D.vsleep(100)
        ev = D.CoEvent()
        res['wait'] = ev.wait(50)
        q = D.CoQueue()
        try:
            q.get(timeout=25)
        except Exception as e:
            res['q'] = type(e).__name__
        res['dt'] = D.vtime() - t0
    w0 = time.time()
    s = D.run(root, horizon=1000)
    check('virtual sleep/wait/get time-outs', s.status == 'ok' and res.get('wait') is False and res.get('q') == 'Empty' and 174.9 < res['dt'] < 175.1, res)
    check('no wall time spent', time.time() - w0 < 2)


def t_deadlock():
    def mk():
        a, b = D.CoLock(), D.CoLock()

        def t1():
            with a:
                D.CURRENT.yield_point('x')
                with b:
                    pass

        def t2():
            with b:
                D.CURRENT.yield_point('y')
                with a:
                    pass

        def root():
            x, y = D.CoThread(target=t1, name='t1'), D.CoThread(target=t2, name='t2')
            x.start()
            y.start()
            x.join()
            y.join()
        return root
    stats = set()
    for prefix, s in D.explore_pb(mk, 2):
        stats.add(s.status)
    check('pb(2) finds the lock-order deadlock and also completing schedules', stats == {'ok', 'deadlock'}, stats)


def t_determinism():
    sigs = set()
    for _ in range(3):
        root, st = racy_counter(False)
        s = D.Sched(('rw', 0.5), 7).run(root)
        sigs.add((s.signature(), st['n']))
    check('same seed, same schedule', len(sigs) == 1, sigs)
    sigs = set()
    for seed in range(20):
        root, st = racy_counter(False)
        sigs.add(D.Sched(('rw', 0.5), seed).run(root).signature())
    check('different seeds explore different schedules', len(sigs) > 3, len(sigs))


def t_escape_and_leak():
    def root():
        def bad():
            raise KeyError('boom')

        def stuck():
            D.CoEvent().wait()
        D.CoThread(target=bad, name='bad').start()
        D.CoThread(target=stuck, name='stuck').start()
    s = D.run(root, grace=5)
    check('escaped exception recorded', any(e[0] == 'bad' and 'KeyError' in e[1] for e in s.escaped), s.escaped)
    check('thread still alive after the root returned is reported', s.status == 'ok' and any(a[0] == 'stuck' for a in s.alive), (s.status, s.alive))


def t_horizon():
    def root():
        ev = D.CoEvent()

        def ticker():
            while True:
                D.vsleep(1)
        D.CoThread(target=ticker, name='ticker').start()
        ev.wait()      # never set: the ticker keeps virtual time running
    s = D.run(root, horizon=50)
    check('virtual-time horizon ends a run whose root is stuck', s.status == 'horizon' and any(a[0] == 'root' for a in s.alive), (s.status, s.alive))


def t_lines():
    state = {'n': 0}

    def bump():
        v = state['n']
        v = v + 1
        state['n'] = v

    def mk():
        state['n'] = 0

        def root():
            ts = [D.CoThread(target=bump, name=f'b{i}') for i in range(2)]
            for t in ts:
                t.start()
            for t in ts:
                t.join()
        return root
    n = D.watch_lines(bump)
    outcomes = set()
    for prefix, s in D.explore_pb(mk, 1):
        outcomes.add(state['n'])
    D.unwatch_all()
    check('LINE yield points expose a race between two plain statements', n == 1 and outcomes == {1, 2}, outcomes)


if __name__ == '__main__':
    for t in (t_lost_update, t_virtual_time, t_deadlock, t_determinism, t_escape_and_leak, t_horizon, t_lines):
        t()
    print('engine self-tests:', 'FAILED ' + ', '.join(FAIL) if FAIL else 'all passed')
    sys.exit(1 if FAIL else 0)
