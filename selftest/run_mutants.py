#!/usr/bin/env python3
"""self-validation of the monitors: apply each seeded break (selftest/mutants.json) to a scratch
worktree of the repository (outside /repo and /verif), run the quick check of the property with
VERIF_REPO pointing there, and require a VIOLATION.  The scratch worktree is removed afterwards.

usage: run_mutants.py [--only SUBSTR] [--suite] [--tier quick] [--jobs N]
  --suite   also run the repository's pinned test suite on the mutant (it must still pass)
"""
import argparse
import concurrent.futures
import json
import os
import shutil
import subprocess
import sys
import tempfile
import threading

GITLOCK = threading.Lock()

HERE = os.path.dirname(os.path.abspath(__file__))
VERIF = os.path.dirname(HERE)
REPO = os.environ.get('VERIF_REPO', '/repo')


def apply_edits(root, m):
    for ed in m['edits']:
        path = os.path.join(root, ed['file'])
        s = open(path, encoding='utf-8').read()
        cnt = s.count(ed['old'])
        if cnt != ed.get('count', 1):
            raise RuntimeError(f'{m["id"]}: pattern occurs {cnt}x in {ed["file"]}: {ed["old"][:60]!r}')
        s = s.replace(ed['old'], ed['new'])
        open(path, 'w', encoding='utf-8').write(s)


def run_one(m, args):
    tmp = tempfile.mkdtemp(prefix='frappy-mut-')
    wt = os.path.join(tmp, 'repo')
    res = {'id': m['id'], 'property': m['property']}
    try:
        with GITLOCK:
            subprocess.run(['git', '-C', REPO, 'worktree', 'add', '--detach', '-q', wt, 'HEAD'], check=True,
                           stdout=subprocess.DEVNULL, stderr=subprocess.DEVNULL)
        # the working tree of /repo may carry uncommitted edits: mirror tracked files that differ
        diff = subprocess.run(['git', '-C', REPO, 'diff', 'HEAD'], capture_output=True, text=True).stdout
        if diff.strip():
            subprocess.run(['git', '-C', wt, 'apply'], input=diff, text=True, check=True)
        apply_edits(wt, m)
        res['diff'] = subprocess.run(['git', '-C', wt, 'diff'], capture_output=True, text=True).stdout
        env = dict(os.environ, VERIF_REPO=wt, VERIF_SEED=str(args.seed), VERIF_JOBS=str(args.check_jobs))
        out_dir = os.path.join(tmp, 'out')
        env['VERIF_OUT'] = out_dir
        p = subprocess.run([os.path.join(VERIF, 'vcheck'), m['property'], '--tier', args.tier, '--no-evidence'], cwd=VERIF, env=env,
                           capture_output=True, text=True, timeout=args.timeout)
        res['rc'] = p.returncode
        res['keys'] = [l.split('key=')[1].split()[0] for l in p.stdout.splitlines() if l.strip().startswith('key=')]
        res['caught'] = p.returncode == 1 and 'VIOLATION property=' in p.stdout
        res['tail'] = p.stdout[-600:] if not res['caught'] else ''
        if args.suite:
            t = subprocess.run(['/venv/bin/python', '-m', 'pytest', '-q', '-p', 'no:cacheprovider', '--timeout=900',
                                '--continue-on-collection-errors', '-x', '--deselect', 'test/test_server.py',
                                '--deselect', 'test/test_discovery.py', '--ignore', 'cfg'], cwd=wt,
                               capture_output=True, text=True, timeout=900)
            res['suite_pass'] = ' failed' not in t.stdout.splitlines()[-1] and ' passed' in t.stdout.splitlines()[-1]
            res['suite_tail'] = t.stdout.splitlines()[-1]
    except Exception as e:
        res['error'] = f'{type(e).__name__}: {e}'
        res['caught'] = False
    finally:
        with GITLOCK:
            subprocess.run(['git', '-C', REPO, 'worktree', 'remove', '--force', wt], stdout=subprocess.DEVNULL, stderr=subprocess.DEVNULL)
            shutil.rmtree(tmp, ignore_errors=True)
            subprocess.run(['git', '-C', REPO, 'worktree', 'prune'], stdout=subprocess.DEVNULL, stderr=subprocess.DEVNULL)
    return res


def main():
    ap = argparse.ArgumentParser()
    ap.add_argument('--only', default='')
    ap.add_argument('--suite', action='store_true')
    ap.add_argument('--tier', default='quick')
    ap.add_argument('--seed', type=int, default=0)
    ap.add_argument('--jobs', type=int, default=4)
    ap.add_argument('--check-jobs', type=int, default=4)
    ap.add_argument('--timeout', type=int, default=900)
    ap.add_argument('--write-diffs', action='store_true')
    args = ap.parse_args()
    muts = json.load(open(os.path.join(HERE, 'mutants.json')))
    muts = [m for m in muts if args.only in m['id'] or args.only == m['property']]
    results = []
    with concurrent.futures.ThreadPoolExecutor(args.jobs) as ex:
        for res in ex.map(lambda m: run_one(m, args), muts):
            results.append(res)
            status = 'CAUGHT' if res['caught'] else 'MISSED'
            extra = ''
            if args.suite:
                extra = ' suite=' + ('pass' if res.get('suite_pass') else 'FAIL ' + res.get('suite_tail', ''))
            print(f'{status} {res["id"]} rc={res.get("rc")} keys={res.get("keys", [])[:3]}{extra} {res.get("error", "")}')
            if not res['caught']:
                print('   ', res.get('tail', '').replace('\n', '\n    ')[-500:])
            if args.write_diffs and res.get('diff'):
                d = os.path.join(HERE, 'mutants')
                os.makedirs(d, exist_ok=True)
                open(os.path.join(d, res['id'] + '.diff'), 'w').write(res['diff'])
    missed = [r['id'] for r in results if not r['caught']]
    print(f'{len(results) - len(missed)}/{len(results)} caught; missed: {missed}')
    json.dump([{k: v for k, v in r.items() if k != 'diff'} for r in results],
              open(os.path.join(HERE, 'last_mutant_run.json'), 'w'), indent=1)
    return 1 if missed else 0


if __name__ == '__main__':
    sys.exit(main())
