"""runner: shards a check over subprocesses, merges, classifies against known findings,
writes evidence and replay files, prints the verdict lines, returns the exit code

exit 0 held (possibly with KNOWN-FINDING lines) | 1 violated | 2 inconclusive
"""
import argparse
import concurrent.futures
import hashlib
import importlib
import json
import os
import shutil
import subprocess
import sys
import tempfile
import time

from vlib import env, rec

KNOWN_FILE = os.path.join(env.VERIF, 'known_findings.json')


def load_known(prop):
    try:
        with open(KNOWN_FILE, encoding='utf-8') as f:
            doc = json.load(f)
    except FileNotFoundError:
        return {}
    return {e['key']: e for e in doc.get('findings', []) if e.get('property') == prop}


def run_one(prop, shard, workdir, idx, timeout):
    sfile = os.path.join(workdir, f'shard{idx}.json')
    rfile = os.path.join(workdir, f'result{idx}.json')
    lfile = os.path.join(workdir, f'log{idx}.txt')
    with open(sfile, 'w', encoding='utf-8') as f:
        json.dump(shard, f)
    envv = dict(os.environ)
    envv.setdefault('PYTHONHASHSEED', '0')
    envv['PYTHONPATH'] = env.VERIF
    envv[env.GUARD] = '1'
    envv['TMPDIR'] = workdir
    t0 = time.time()
    with open(lfile, 'wb') as log:
        try:
            p = subprocess.run([env.PYTHON, '-m', 'vlib.shard', prop, sfile, rfile], cwd=env.VERIF, env=envv,
                               stdout=log, stderr=subprocess.STDOUT, timeout=timeout, check=False)
            rc = p.returncode
        except subprocess.TimeoutExpired:
            rc = 'timeout'
    res = None
    if os.path.exists(rfile):
        with open(rfile, encoding='utf-8') as f:
            res = json.load(f)
    tail = ''
    if res is None or 'harness_error' in (res or {}):
        with open(lfile, 'rb') as f:
            tail = f.read()[-3000:].decode('utf-8', 'replace')
    return idx, rc, res, tail, time.time() - t0


def main(argv=None):
    ap = argparse.ArgumentParser()
    ap.add_argument('prop')
    ap.add_argument('--tier', default=os.environ.get('VERIF_TIER', 'quick'), choices=['quick', 'thorough'])
    ap.add_argument('--seed', type=int, default=int(os.environ.get('VERIF_SEED', '0') or 0))
    ap.add_argument('--replay')
    ap.add_argument('--jobs', type=int, default=int(os.environ.get('VERIF_JOBS', '16')))
    ap.add_argument('--no-evidence', action='store_true', help='do not rewrite evidence/ (self-test runs on mutants)')
    ap.add_argument('--scale', type=float, default=float(os.environ.get('VERIF_SCALE', '1')),
                    help='multiply the workload size (debugging)')
    args = ap.parse_args(argv)
    prop = args.prop.upper()
    t0 = time.time()
    sys.path.insert(0, env.VERIF)
    mod = importlib.import_module('checks.' + prop.lower())
    known = load_known(prop)

    workdir = tempfile.mkdtemp(prefix=f'verif-{prop}-')
    try:
        if args.replay:
            with open(args.replay, encoding='utf-8') as f:
                doc = json.load(f)
            shards = [{'replay': doc['case'], 'tier': doc.get('tier', 'quick'), 'seed': doc.get('seed', 0)}]
        else:
            shards = mod.plan(args.tier, args.seed, args.scale)
            # regression corpus: stored witnesses of the listed findings are re-executed first
            corpus = [e['witness'] for e in known.values() if e.get('witness') is not None]
            if corpus and hasattr(mod, 'replay'):
                shards.insert(0, {'replay_many': corpus, 'tier': args.tier, 'seed': args.seed})
        for s in shards:
            s.setdefault('tier', args.tier)
            s.setdefault('seed', args.seed)
            s.setdefault('provision', getattr(mod, 'PROVISION', True))
        timeout = getattr(mod, 'SHARD_TIMEOUT', {}).get(args.tier, 600 if args.tier == 'quick' else 7200)
        for s in shards:
            # the shard's own watchdog (traceback dump + exit) fires a little before the runner gives up on it
            s.setdefault('wall_limit', max(60, timeout - 30))
        results, problems = [], []
        with concurrent.futures.ThreadPoolExecutor(max(1, min(args.jobs, len(shards)))) as ex:
            futs = [ex.submit(run_one, prop, s, workdir, i, timeout) for i, s in enumerate(shards)]
            for fu in concurrent.futures.as_completed(futs):
                idx, rc, res, tail, dt = fu.result()
                if res is None:
                    problems.append(f'shard {idx} produced no result (rc={rc}); tail: {tail[-800:]}')
                elif 'harness_error' in res:
                    problems.append(f'shard {idx} harness error: {res["harness_error"]}; {res.get("traceback", "")[-1500:]}')
                else:
                    results.append(res)
        tot = rec.merge(results)
    finally:
        shutil.rmtree(workdir, ignore_errors=True)

    # ---- classification
    for r in tot['inconclusive']:
        problems.append(r)
    required = getattr(mod, 'REQUIRED', [])
    for name in required:
        if not args.replay and tot['observed'].get(name, 0) <= 0:
            problems.append(f'deciding monitor never reached: counter {name} = 0')
    if not args.replay and tot['evaluations'] == 0:
        problems.append('no case executed')

    lines = []
    new_violations, known_seen = [], []
    outdir = os.path.join(os.environ.get('VERIF_OUT') or os.path.join(env.VERIF, 'out'), 'replay', prop)
    for key, v in sorted(tot['violations'].items()):
        entry = known.get(key)
        if entry is not None and entry.get('status') == 'known' and entry.get('max_rate') is not None \
                and v['count'] > max(3, entry['max_rate'] * max(1, tot['evaluations'])):
            # the listed finding is a rare race; the same symptom far more often is a different defect
            key = key + '/far-more-often-than-the-listed-race'
            v = dict(v, key=key, what=f'{v["what"]} [{v["count"]}x in {tot["evaluations"]} runs; the listed finding occurs at a rate <= {entry["max_rate"]}]')
            entry = None
        if entry is not None and entry.get('status') == 'known':
            known_seen.append(key)
            lines.append(f'KNOWN-FINDING: property={prop} {key}: {entry.get("what", v["what"])} (seen {v["count"]}x)')
            continue
        os.makedirs(outdir, exist_ok=True)
        path = os.path.join(outdir, hashlib.sha1(key.encode()).hexdigest()[:12] + '.json')
        with open(path, 'w', encoding='utf-8') as f:
            json.dump({'property': prop, 'tier': args.tier, 'seed': args.seed, 'key': key, 'what': v['what'],
                       'count': v['count'], 'case': v['case'], 'shard': v.get('shard')}, f, indent=1)
        new_violations.append((key, v, path))
        lines.append(f'VIOLATION property={prop} replay={path}')
        lines.append(f'  key={key} count={v["count"]} what={v["what"][:300]}')
    known_missing = [k for k, e in known.items() if e.get('status') == 'known' and k not in known_seen]

    if new_violations:
        verdict, code = 'violated', 1
    elif problems:
        verdict, code = 'inconclusive', 2
    else:
        verdict, code = 'held', 0

    # ---- evidence
    if not args.replay and not args.no_evidence:
        cov = {
            'evaluations': tot['evaluations'],
            'distinct_nontrivial': len(tot['nontrivial']) + tot['bulk_nontrivial'],
            'distinct_cases': len(tot['distinct']) + tot['bulk_distinct'],
            'rule': mod.RULE,
            'samples': tot['samples'][:8] or ['<none>'],
            'observed': dict(sorted(tot['observed'].items())),
            'maxima': tot['maxima'],
            'verdict': verdict,
            'shards': len(shards),
            'violation_keys': {k: v['count'] for k, v in tot['violations'].items()},
            'known_findings_observed': known_seen,
            'known_findings_not_reproduced': known_missing,
            'inconclusive_reasons': problems[:10],
            'notes': tot['notes'][:20],
        }
        if tot['exhaustive'] is not None:
            cov['exhaustive'] = bool(tot['exhaustive'])
        ev = {
            'property_id': prop, 'tier': args.tier, 'seed': args.seed, 'level': mod.LEVEL,
            'coverage': cov, 'assumptions': list(getattr(mod, 'ASSUMPTIONS', [])),
            'wall_s': round(time.time() - t0, 2), 'violations': len(new_violations),
        }
        os.makedirs(os.path.join(env.VERIF, 'evidence'), exist_ok=True)
        path = os.path.join(env.VERIF, 'evidence', f'{prop}.json')
        with open(path + '.tmp', 'w', encoding='utf-8') as f:
            json.dump(ev, f, indent=1, sort_keys=True)
            f.write('\n')
        os.replace(path + '.tmp', path)

    for l in lines:
        print(l)
    for p in problems[:4]:
        print(f'INCONCLUSIVE property={prop} reason={p[:1500]}')
    if len(problems) > 4:
        print(f'INCONCLUSIVE property={prop} ... and {len(problems) - 4} more reasons')
    for k in known_missing:
        print(f'NOTE property={prop} listed finding not observed in this run: {k}')
    obs = ' '.join(f'{k}={v}' for k, v in sorted(tot['observed'].items())[:40])
    print(f'{prop} {args.tier} seed={args.seed}: {verdict}; evaluations={tot["evaluations"]} '
          f'distinct={len(tot["distinct"]) + tot["bulk_distinct"]} nontrivial={len(tot["nontrivial"]) + tot["bulk_nontrivial"]} wall={time.time() - t0:.1f}s')
    print(f'  observed: {obs}')
    return code


if __name__ == '__main__':
    sys.exit(main())
