"""import the whole frappy package with shimmed threading / time / queue (see vlib.detsched)

Standard-library and third-party modules are imported first with the real modules (the list comes from
a scout subprocess that imports frappy normally); then sys.modules['threading'|'time'|'queue'] are
swapped for shim modules while EVERY module of the frappy package is imported (lazily loaded modules
such as the dispatcher and the interfaces included), then restored."""
import importlib
import json
import os
import pkgutil
import subprocess
import sys
import types

from vlib import env, detsched

_loaded = None

SCOUT = r'''
import sys, json, pkgutil, importlib
sys.path.insert(0, %r)
import frappy
names = []
for m in pkgutil.walk_packages(frappy.__path__, 'frappy.'):
    if '.gui' in m.name or m.name.endswith('__main__'):
        continue
    try:
        importlib.import_module(m.name)
        names.append(m.name)
    except BaseException:
        pass
print(json.dumps({'frappy': names, 'other': sorted(n for n in sys.modules if not n.startswith('frappy'))}))
'''


def _shim_module(real, **over):
    m = types.ModuleType(real.__name__)
    m.__dict__.update({k: v for k, v in real.__dict__.items() if not k.startswith('__')})
    m.__dict__.update(over)
    return m


def load():
    """-> dict(threading=shim, time=shim, queue=shim); idempotent per process"""
    global _loaded
    if _loaded:
        return _loaded
    if any(n == 'frappy' or n.startswith('frappy.') for n in sys.modules):
        raise RuntimeError('frappy was imported before vlib.shimimport.load()')
    if sys.path[0] != env.REPO:
        sys.path.insert(0, env.REPO)
    out = subprocess.run([env.PYTHON, '-c', SCOUT % env.REPO], capture_output=True, text=True, timeout=120,
                         env=dict(os.environ, PYTHONPATH=''))
    info = json.loads(out.stdout.strip().splitlines()[-1])
    for name in info['other']:
        try:
            importlib.import_module(name)
        except BaseException:
            pass
    import threading
    import time
    import queue
    th = _shim_module(threading, Lock=detsched.CoLock, RLock=detsched.CoRLock, Event=detsched.CoEvent, Thread=detsched.CoThread)
    tm = _shim_module(time, time=detsched.vtime, monotonic=detsched.vtime, sleep=detsched.vsleep)
    qu = _shim_module(queue, Queue=detsched.CoQueue)
    saved = {k: sys.modules[k] for k in ('threading', 'time', 'queue')}
    sys.modules.update(threading=th, time=tm, queue=qu)
    try:
        for name in info['frappy']:
            try:
                importlib.import_module(name)
            except BaseException:
                pass
    finally:
        sys.modules.update(saved)
    env._setup_done = True
    os.environ.setdefault(env.GUARD, '1')
    env.provision_frappy()
    _loaded = {'threading': th, 'time': tm, 'queue': qu, 'modules': info['frappy']}
    return _loaded


def verify():
    """which frappy modules are bound to the shims (reported in the evidence)"""
    sh = load()
    import frappy.modulebase
    import frappy.protocol.dispatcher as disp
    import frappy.client
    import frappy.io
    import frappy.lib.asynconn
    import frappy.lib.multievent as me
    return {
        'modulebase.threading': frappy.modulebase.threading is sh['threading'],
        'modulebase.time': frappy.modulebase.time is sh['time'],
        'dispatcher.currenttime': disp.currenttime is detsched.vtime,
        'client.Event': frappy.client.Event is detsched.CoEvent,
        'client.queue': frappy.client.queue is sh['queue'],
        'io.time': frappy.io.time is sh['time'],
        'asynconn.time': frappy.lib.asynconn.time is sh['time'],
        'multievent.base': me.MultiEvent.__mro__[1] is detsched.CoEvent,
    }
