"""process environment for workloads: where frappy comes from, provisioning, logger stubs

Nothing here edits /repo.  The checks import frappy from the *working tree* named by VERIF_REPO
(default /repo), so they always see the current sources.
"""
import os
import sys
import tempfile

VERIF = os.path.dirname(os.path.dirname(os.path.abspath(__file__)))
REPO = os.environ.get('VERIF_REPO', '/repo')
PYTHON = os.environ.get('VERIF_PYTHON', '/venv/bin/python')
GUARD = 'FRAPPY_VERIF'

_setup_done = False
SCRATCH = None


def scratch_dir():
    global SCRATCH
    if SCRATCH is None:
        SCRATCH = tempfile.mkdtemp(prefix='frappy-verif-')
        import atexit
        import shutil
        atexit.register(shutil.rmtree, SCRATCH, True)
    return SCRATCH


def setup(provision=True):
    """make `import frappy` resolve to the working tree and provide what the sandbox lacks"""
    global _setup_done
    if _setup_done:
        return
    _setup_done = True
    os.environ.setdefault(GUARD, '1')
    if sys.path[0] != REPO:
        sys.path.insert(0, REPO)
    deps = os.path.join(VERIF, '.deps')
    if os.path.isdir(deps) and deps not in sys.path:
        sys.path.append(deps)
    if provision:
        provision_frappy()


def provision_frappy():
    """get_version() raises in this sandbox (no git tag, no RELEASE-VERSION): rebind it"""
    import frappy.version
    import frappy.lib

    def get_version(*args):
        return '0.0.verif'
    frappy.version.get_version = get_version
    for name in ('frappy.secnode', 'frappy.protocol.discovery'):
        mod = sys.modules.get(name)
        if mod is not None and hasattr(mod, 'get_version'):
            mod.get_version = get_version
    set_config()


def set_config(**kwds):
    """(re)initialise frappy's general configuration for this process (scratch directories + kwds)"""
    import frappy.lib
    from pathlib import Path
    d = Path(scratch_dir())
    cfg = {'logdir': d / 'log', 'piddir': d / 'pid', 'confdir': [d / 'cfg']}
    cfg.update(kwds)
    frappy.lib.generalConfig.testinit(**cfg)


def fix_version():
    """call again after lazily imported modules were loaded"""
    import frappy.version
    for name in ('frappy.secnode', 'frappy.protocol.discovery'):
        mod = sys.modules.get(name)
        if mod is not None:
            mod.get_version = frappy.version.get_version


class Log:
    """logger stub: records warnings/errors, root carries a real RemoteLogHandler
    (Dispatcher.reset_connection needs it on every disconnect)"""
    records = None

    def __init__(self, name='root', parent=None, records=None):
        self.name = name
        self.parent = parent
        self.handlers = []
        self.propagate = True
        self.records = records if records is not None else (parent.records if parent else [])
        if parent is None:
            from frappy.logging import RemoteLogHandler
            self.handlers.append(RemoteLogHandler())

    def getChild(self, n, *a):
        return Log(self.name + '.' + n, self, self.records)

    def _fmt(self, fmt, a):
        try:
            return str(fmt) % a if a else str(fmt)
        except Exception:
            return f'{fmt!r} {a!r}'

    def debug(self, fmt, *a, **k):
        pass

    def info(self, fmt, *a, **k):
        pass

    def log(self, lvl, fmt, *a, **k):
        pass

    def warning(self, fmt, *a, **k):
        self.records.append(('warning', self.name, self._fmt(fmt, a)))

    def error(self, fmt, *a, **k):
        self.records.append(('error', self.name, self._fmt(fmt, a)))

    def exception(self, fmt, *a, **k):
        self.records.append(('exception', self.name, self._fmt(fmt, a)))

    def critical(self, fmt, *a, **k):
        self.records.append(('critical', self.name, self._fmt(fmt, a)))

    def addHandler(self, h):
        self.handlers.append(h)

    def setLevel(self, lvl):
        pass

    def isEnabledFor(self, lvl):
        return False

    def getEffectiveLevel(self):
        return 20
