"""refdt - independent executable semantics of SECoP datainfo

Written against the SECoP description and the docstrings of the code under test; uses only the
standard library and NEVER imports frappy.  A `spec` is a datainfo dict (what `describe` carries),
optionally with private keys (leading underscore) that only the generator and the builder use:
  scaled: '_fmin' / '_fmax'  float limits that are not aligned to the grid
  enum:   '_name'

Wire values are what json.loads returns.  Python-side ("driver") values are natural Python
objects: tuple/list, dict, bytes, float for scaled, int or name for enum.

classify_*  -> 'accept' | 'reject' | 'either'
   accept: inside the declared value set (validation of it must be idempotent)
   reject: must raise a bad-value error
   either: documented tolerance band / documented convenience conversion; if accepted, `same` and
           `member` still decide what may be returned
"""
import base64
import binascii
import math
import sys

FMAX = sys.float_info.max
REL_RES = 1.2e-7
UNLIMITED = 1 << 64


def kind(v):
    if v is None:
        return 'null'
    if isinstance(v, bool):
        return 'bool'
    if isinstance(v, int):
        return 'int'
    if isinstance(v, float):
        return 'float'
    if isinstance(v, str):
        return 'str'
    if isinstance(v, (bytes, bytearray)):
        return 'bytes'
    if isinstance(v, (list, tuple)):
        return 'list'
    if isinstance(v, dict):
        return 'obj'
    return type(v).__name__


def combine(it):
    res = 'accept'
    for r in it:
        if r == 'reject':
            return 'reject'
        if r == 'either':
            res = 'either'
    return res


# ---------------------------------------------------------------- limits as described

def scaled_limits(di):
    """integer limits as the description shows them (limits not on the grid are rounded by the
    description itself)"""
    if '_fmin' in di or '_fmax' in di:
        sc = di['scale']
        lo = int(round(di.get('_fmin', di['min'] * sc) / sc))
        hi = int(round(di.get('_fmax', di['max'] * sc) / sc))
        return lo, hi
    return di['min'], di['max']


def double_band(di, x):
    """-> 'in' | 'band' | 'edge' | 'out' for a finite float x"""
    lo, hi = di.get('min', -FMAX), di.get('max', FMAX)
    if lo <= x <= hi:
        return 'in'
    prec = max(abs(x) * di.get('relative_resolution', REL_RES), di.get('absolute_resolution', 0.0))
    d = lo - x if x < lo else x - hi
    if not math.isfinite(d):
        return 'out'
    if d <= prec * (1 - 1e-6):
        return 'band'
    if d <= prec * (1 + 1e-6) + 5e-324:
        return 'edge'
    return 'out'


def is_number(c):
    return kind(c) in ('int', 'float', 'bool')


def whole(c):
    """numeric and a whole number (documented conversion whole float <-> int)"""
    k = kind(c)
    if k in ('int', 'bool'):
        return True
    return k == 'float' and math.isfinite(c) and c == int(c)


# ---------------------------------------------------------------- wire path

def classify_wire(di, c, stored=False):
    """candidate c (JSON) offered for datainfo di through import_value + validate

    stored: the candidate must be a complete stored value (no absent optional members)"""
    t = di['type']
    k = kind(c)
    if t == 'double':
        if not is_number(c):
            return 'reject'
        if k == 'float' and math.isnan(c):
            return 'reject'
        try:
            x = float(c)
        except OverflowError:
            return 'reject'
        if math.isinf(x):
            # documented: +-inf is mapped to +-max float; acceptable only where that is in range
            lim = di.get('max', FMAX) if x > 0 else di.get('min', -FMAX)
            return 'either' if abs(lim) >= FMAX else 'reject'
        b = double_band(di, x)
        if b == 'in':
            return 'either' if k == 'bool' else 'accept'
        return 'either' if b in ('band', 'edge') else 'reject'
    if t == 'int':
        if not is_number(c) or not whole(c):
            return 'reject'
        if not di['min'] <= int(c) <= di['max']:
            return 'reject'
        return 'either' if k == 'bool' else 'accept'
    if t == 'scaled':
        if not is_number(c) or not whole(c):
            return 'reject'
        lo, hi = scaled_limits(di)
        n = int(c)
        if lo <= n <= hi:
            return 'either' if k == 'bool' else 'accept'
        if n in (lo - 1, hi + 1):
            return 'either'   # "silently clamp when outside by not more than scale" + rounding
        return 'reject'
    if t == 'bool':
        if k == 'bool':
            return 'accept'
        if k in ('int', 'float') and c in (0, 1):
            return 'either'
        return 'reject'
    if t == 'enum':
        codes = set(di['members'].values())
        if k == 'int':
            return 'accept' if c in codes else 'reject'
        if k in ('bool', 'float'):
            return 'either' if whole(c) and int(c) in codes else 'reject'
        if k == 'str':
            return 'either' if c in di['members'] else 'reject'   # names: convenience of the implementation
        return 'reject'
    if t == 'string':
        if k != 'str':
            return 'reject'
        if not di.get('minchars', 0) <= len(c) <= di.get('maxchars', UNLIMITED):
            return 'reject'
        if '\0' in c:
            return 'reject'
        if not di.get('isUTF8') and not c.isascii():
            return 'reject'
        try:
            c.encode('utf-8')
        except UnicodeEncodeError:   # lone surrogates: not valid Unicode, but nothing documented -> not judged
            return 'either'
        return 'accept'
    if t == 'blob':
        if k != 'str':
            return 'reject'
        try:
            b = base64.b64decode(c, validate=True)
        except (binascii.Error, ValueError):
            return 'reject'
        return 'accept' if di.get('minbytes', 0) <= len(b) <= di['maxbytes'] else 'reject'
    if t == 'array':
        if k != 'list':
            return 'reject'
        if not di.get('minlen', 0) <= len(c) <= di['maxlen']:
            return 'reject'
        return combine(classify_wire(di['members'], e, stored) for e in c)
    if t == 'tuple':
        if k != 'list' or len(c) != len(di['members']):
            return 'reject'
        return combine(classify_wire(m, e, stored) for m, e in zip(di['members'], c))
    if t == 'struct':
        if k != 'obj':
            return 'reject'
        if set(c) - set(di['members']):
            return 'reject'
        opt = set() if stored else set(di.get('optional', di['members']))
        if (set(di['members']) - opt) - set(c):
            return 'reject'
        return combine('either' if e is None else classify_wire(di['members'][n], e, stored)
                       for n, e in c.items())
    raise ValueError(t)


def member(di, e, partial_ok=False):
    """is the *exported* value e (JSON) inside the declared value set?  strict: after validation
    no tolerance is left (values in the band are clamped to the limit)"""
    t = di['type']
    k = kind(e)
    if t == 'double':
        return k == 'float' and math.isfinite(e) and di.get('min', -FMAX) <= e <= di.get('max', FMAX)
    if t == 'int':
        return k == 'int' and di['min'] <= e <= di['max']
    if t == 'scaled':
        lo, hi = scaled_limits(di)
        return k == 'int' and lo <= e <= hi
    if t == 'bool':
        return k == 'bool'
    if t == 'enum':
        return k == 'int' and e in di['members'].values()
    if t in ('string', 'blob'):
        return classify_wire(di, e) == 'accept'
    if t == 'array':
        return k == 'list' and di.get('minlen', 0) <= len(e) <= di['maxlen'] and \
            all(member(di['members'], x, partial_ok) for x in e)
    if t == 'tuple':
        return k == 'list' and len(e) == len(di['members']) and \
            all(member(m, x, partial_ok) for m, x in zip(di['members'], e))
    if t == 'struct':
        if k != 'obj' or set(e) - set(di['members']):
            return False
        need = set(di['members'])
        if partial_ok:
            need -= set(di.get('optional', di['members']))
        if need - set(e):
            return False
        return all(member(di['members'][n], x, partial_ok) for n, x in e.items())
    raise ValueError(t)


def same_wire(di, c, e, prev=None):
    """does exported result e denote the value the wire candidate c offered?
    prev: exported previous value (structs: members not offered are taken from it)"""
    t = di['type']
    k = kind(c)
    if t == 'double':
        if not is_number(c) or kind(e) != 'float':
            return False
        x = float(c)
        if math.isinf(x):
            return e == math.copysign(FMAX, x)
        b = double_band(di, x)
        if b == 'in':
            return e == x
        lim = di.get('min', -FMAX) if x < di.get('min', -FMAX) else di.get('max', FMAX)
        return e == lim or (b == 'edge' and e == x)
    if t == 'int':
        return is_number(c) and whole(c) and kind(e) == 'int' and e == int(c)
    if t == 'scaled':
        if not (is_number(c) and whole(c)) or kind(e) != 'int':
            return False
        lo, hi = scaled_limits(di)
        n = int(c)
        return e == min(max(n, lo), hi) and abs(e - n) <= 1
    if t == 'bool':
        return is_number(c) and c in (0, 1) and e is bool(c)
    if t == 'enum':
        if k == 'str':
            return di['members'].get(c) == e and kind(e) == 'int'
        return is_number(c) and whole(c) and e == int(c) and kind(e) == 'int'
    if t == 'string':
        return k == 'str' and c == e
    if t == 'blob':
        try:
            return k == 'str' and kind(e) == 'str' and \
                base64.b64decode(c, validate=True) == base64.b64decode(e, validate=True)
        except (binascii.Error, ValueError):
            return False
    if t == 'array':
        return k == 'list' and kind(e) == 'list' and len(c) == len(e) and \
            all(same_wire(di['members'], a, b, _pidx(prev, i)) for i, (a, b) in enumerate(zip(c, e)))
    if t == 'tuple':
        return k == 'list' and kind(e) == 'list' and len(c) == len(e) == len(di['members']) and \
            all(same_wire(m, a, b, _pidx(prev, i)) for i, (m, a, b) in enumerate(zip(di['members'], c, e)))
    if t == 'struct':
        if k != 'obj' or kind(e) != 'obj':
            return False
        return _same_struct(di, c, e, prev, same_wire)
    raise ValueError(t)


def _pidx(prev, i):
    """element i of an exported previous value (None when there is none)"""
    if isinstance(prev, list) and i < len(prev):
        return prev[i]
    return None


def _same_struct(di, c, e, prev, same, *args):
    """members offered must be what was offered; members not offered come from the previous value.
    A struct nested in a struct may or may not be merged with the previous member (both readings of
    'a partial struct is merged into the current value' are accepted); completeness is judged by
    `member`, not here."""
    given = {n: v for n, v in c.items() if v is not None}
    pv = prev if isinstance(prev, dict) else {}
    if not set(given) <= set(e) or not set(e) <= set(given) | set(pv):
        return False
    for n in e:
        if n in given:
            m = di['members'].get(n)
            if m is None:
                return False
            if not (same(m, given[n], e[n], *args, pv.get(n)) or same(m, given[n], e[n], *args, None)):
                return False
        elif e[n] != pv[n]:
            return False
    return True


# ---------------------------------------------------------------- python-side ("driver") path

def classify_py(di, v, limits=True, stored=True):
    """candidate v (a python object handed over by driver code / configuration)

    limits=False models DataType.__call__ (conversion without numeric limit check: values read
    from hardware outside the declared range are kept, as documented); lengths and arities of
    containers and strings are always checked"""
    t = di['type']
    k = kind(v)
    if t == 'double':
        if not is_number(v):
            return 'reject'
        if k == 'float' and math.isnan(v):
            return 'reject'
        try:
            x = float(v)
        except OverflowError:
            return 'reject'
        if not limits:
            return 'either' if (k == 'bool' or math.isinf(x)) else 'accept'
        return classify_wire(di, v)
    if t == 'int':
        if not limits:
            if not (is_number(v) and whole(v)):
                return 'reject'
            # beyond the implementation's integer range (2**64) nothing is promised without limits
            return 'either' if k == 'bool' or abs(v) > UNLIMITED else 'accept'
        return classify_wire(di, v)
    if t == 'scaled':
        if not is_number(v):
            return 'reject'
        if k == 'float' and not math.isfinite(v):
            return 'reject'
        if not limits:
            try:
                big = abs(v / di['scale']) > UNLIMITED
            except OverflowError:
                big = True
            return 'either' if k == 'bool' or big else 'accept'
        sc = di['scale']
        lo, hi = scaled_limits(di)
        try:
            q = v / sc
        except OverflowError:
            return 'reject'
        if lo <= q <= hi:
            return 'either' if k == 'bool' else 'accept'
        # documented tolerance: "silently clamp when outside by not more than scale", measured from the
        # real limits (which need not lie on the grid) - the band may reach beyond lo-1 / hi+1
        blo = min(lo, di.get('_fmin', lo * sc) / sc) - 1.000001
        bhi = max(hi, di.get('_fmax', hi * sc) / sc) + 1.000001
        if blo <= q <= bhi:
            return 'either'
        return 'reject'
    if t in ('bool', 'enum', 'string'):
        return classify_wire(di, v)
    if t == 'blob':
        if k != 'bytes':
            return 'reject'
        return 'accept' if di.get('minbytes', 0) <= len(v) <= di['maxbytes'] else 'reject'
    if t == 'array':
        if k != 'list':
            return 'reject'
        if not di.get('minlen', 0) <= len(v) <= di['maxlen']:
            return 'reject'
        return combine(classify_py(di['members'], e, limits, stored) for e in v)
    if t == 'tuple':
        if k != 'list' or len(v) != len(di['members']):
            return 'reject'
        return combine(classify_py(m, e, limits, stored) for m, e in zip(di['members'], v))
    if t == 'struct':
        if k != 'obj':
            return 'reject'
        if set(v) - set(di['members']):
            return 'reject'
        opt = set() if stored else set(di.get('optional', di['members']))
        if (set(di['members']) - opt) - set(n for n, e in v.items() if e is not None or not stored):
            return 'reject'
        return combine('either' if e is None else classify_py(di['members'][n], e, limits, stored)
                       for n, e in v.items())
    raise ValueError(t)


def same_py(di, v, e, limits=True, prev=None):
    """does exported result e denote the python-side value v?"""
    t = di['type']
    k = kind(v)
    if t == 'double':
        if not is_number(v) or kind(e) != 'float':
            return False
        x = float(v)
        if math.isinf(x):
            return e == math.copysign(FMAX, x)
        if not limits:
            return e == x
        return same_wire(di, v, e)
    if t == 'int':
        return same_wire(di, v, e)
    if t == 'scaled':
        if not is_number(v) or kind(e) != 'int':
            return False
        sc = di['scale']
        q = v / sc
        if abs(e - q) <= 0.5 * (1 + 1e-9) + abs(q) * 1e-15:
            return True     # nearest grid point (documented rounding of a driver float)
        if limits:
            lo, hi = scaled_limits(di)
            return e in (lo, hi) and abs(e - q) <= 1.500001 + abs(q) * 1e-15
        return False
    if t in ('bool', 'enum', 'string'):
        return same_wire(di, v, e)
    if t == 'blob':
        try:
            return k == 'bytes' and kind(e) == 'str' and base64.b64decode(e, validate=True) == bytes(v)
        except (binascii.Error, ValueError):
            return False
    if t == 'array':
        return k == 'list' and kind(e) == 'list' and len(v) == len(e) and \
            all(same_py(di['members'], a, b, limits, _pidx(prev, i)) for i, (a, b) in enumerate(zip(v, e)))
    if t == 'tuple':
        return k == 'list' and kind(e) == 'list' and len(v) == len(e) == len(di['members']) and \
            all(same_py(m, a, b, limits, _pidx(prev, i)) for i, (m, a, b) in enumerate(zip(di['members'], v, e)))
    if t == 'struct':
        if k != 'obj' or kind(e) != 'obj':
            return False
        return _same_struct(di, v, e, prev, same_py, limits)
    raise ValueError(t)


def member_nolimits(di, e):
    """value set of DataType.__call__: numeric limits ignored, everything else as declared"""
    t = di['type']
    k = kind(e)
    if t == 'double':
        return k == 'float' and math.isfinite(e)
    if t in ('int', 'scaled'):
        return k == 'int'
    if t == 'array':
        return k == 'list' and di.get('minlen', 0) <= len(e) <= di['maxlen'] and \
            all(member_nolimits(di['members'], x) for x in e)
    if t == 'tuple':
        return k == 'list' and len(e) == len(di['members']) and \
            all(member_nolimits(m, x) for m, x in zip(di['members'], e))
    if t == 'struct':
        return k == 'obj' and set(e) == set(di['members']) and \
            all(member_nolimits(di['members'][n], x) for n, x in e.items())
    return member(di, e)


# ---------------------------------------------------------------- classification key support

NATURAL = {'double': ('int', 'float'), 'int': ('int',), 'scaled': ('int',), 'bool': ('bool',),
           'enum': ('int',), 'string': ('str',), 'blob': ('str',), 'array': ('list',),
           'tuple': ('list',), 'struct': ('obj',)}
NATURAL_PY = dict(NATURAL, scaled=('int', 'float'), blob=('bytes',))


def first_unnatural(di, c, py=False, limits=True):
    """(type kind, what is offered there) at the first position where the candidate is not a plain
    valid value; None if the candidate is plainly valid.  This pair is the mechanism part of the
    classification key of a violation."""
    t = di['type']
    k = kind(c)
    nat = (NATURAL_PY if py else NATURAL)[t]
    if k not in nat:
        return t, k
    if t == 'array':
        if not di.get('minlen', 0) <= len(c) <= di['maxlen']:
            return t, 'badlen'
        for e in c:
            r = first_unnatural(di['members'], e, py, limits)
            if r:
                return r
        return None
    if t == 'tuple':
        if len(c) != len(di['members']):
            return t, 'badlen'
        for m, e in zip(di['members'], c):
            r = first_unnatural(m, e, py, limits)
            if r:
                return r
        return None
    if t == 'struct':
        for n, e in c.items():
            if n not in di['members']:
                return t, 'unknownkey'
        if (set(di['members']) - set(di.get('optional', di['members']))) - set(c):
            return t, 'missingkey'
        for n, e in c.items():
            r = first_unnatural(di['members'][n], e, py, limits)
            if r:
                return r
        return None
    if k == 'float' and not math.isfinite(c):
        return t, 'nonfinite'
    if t == 'scaled' and is_number(c):
        try:
            if abs(c / di['scale'] if py else c) > 1e300:
                return t, 'overflow'
        except OverflowError:
            return t, 'overflow'
    cl = classify_py(di, c, limits) if py else classify_wire(di, c)
    if cl == 'accept':
        return None
    if t in ('string', 'blob'):
        return t, 'badcontent'
    return t, ('band' if cl == 'either' else 'range')


# ---------------------------------------------------------------- diagnosis (classification keys)

def _classify(di, c, py, limits, stored):
    return classify_py(di, c, limits, stored) if py else classify_wire(di, c, stored)


def first_reject(di, c, py=False, limits=True, stored=False):
    """(type kind, reason) at the first position that makes the candidate a must-reject; None otherwise"""
    if _classify(di, c, py, limits, stored) != 'reject':
        return None
    t = di['type']
    k = kind(c)
    nat = (NATURAL_PY if py else NATURAL)[t]
    if t == 'array' and k == 'list':
        if not di.get('minlen', 0) <= len(c) <= di['maxlen']:
            return t, 'badlen'
        for e in c:
            r = first_reject(di['members'], e, py, limits, stored)
            if r:
                return r
    if t == 'tuple' and k == 'list':
        if len(c) != len(di['members']):
            return t, 'badlen'
        for m, e in zip(di['members'], c):
            r = first_reject(m, e, py, limits, stored)
            if r:
                return r
    if t == 'struct' and k == 'obj':
        if set(c) - set(di['members']):
            return t, 'unknownkey'
        opt = set() if stored else set(di.get('optional', di['members']))
        present = set(n for n, e in c.items() if e is not None or not (py and stored))
        if (set(di['members']) - opt) - present:
            return t, 'missingkey'
        for n, e in c.items():
            if e is not None:
                r = first_reject(di['members'][n], e, py, limits, stored)
                if r:
                    return r
    if t in ('array', 'tuple', 'struct'):
        return t, 'wrongkind'
    if t in ('double', 'int', 'scaled') and is_number(c):
        if k == 'float' and not math.isfinite(c):
            return t, 'nonfinite'
        if t != 'double' and not py and not whole(c):
            return t, 'fraction'
        if t == 'int' and not whole(c):
            return t, 'fraction'
        return t, 'range'
    if t == 'enum' and k in ('int', 'str', 'float', 'bool'):
        return t, 'nonmember'
    if k in nat:
        return t, 'badcontent'
    return t, k


def to_wire_lenient(di, v):
    """own conversion python-side value -> wire form, tolerant of partial / malformed containers
    (used when export_value itself raises, to locate what is wrong with the stored value)"""
    t = di['type']
    try:
        if t == 'scaled' and is_number(v):
            return int(round(v / di['scale']))
        if t == 'blob' and isinstance(v, (bytes, bytearray)):
            return base64.b64encode(v).decode()
        if t == 'enum' and isinstance(v, int):
            return int(v)
        if t == 'double' and is_number(v):
            return float(v)
        if t == 'array' and isinstance(v, (list, tuple)):
            return [to_wire_lenient(di['members'], e) for e in v]
        if t == 'tuple' and isinstance(v, (list, tuple)):
            return [to_wire_lenient(m, e) for m, e in zip(di['members'], v)] + list(v[len(di['members']):])
        if t == 'struct' and isinstance(v, dict):
            return {n: to_wire_lenient(di['members'][n], e) if n in di['members'] else e for n, e in v.items()}
    except Exception:
        pass
    return v


def first_nonmember(di, e, limits=True, depth=0):
    """(type kind, reason) at the first position where exported value e is outside the value set"""
    ok = member(di, e) if limits else member_nolimits(di, e)
    if ok:
        return None
    t = di['type']
    k = kind(e)
    if t == 'array' and k == 'list':
        if not di.get('minlen', 0) <= len(e) <= di['maxlen']:
            return t, 'badlen'
        for x in e:
            r = first_nonmember(di['members'], x, limits, depth + 1)
            if r:
                return r
    if t == 'tuple' and k == 'list':
        if len(e) != len(di['members']):
            return t, 'badlen'
        for m, x in zip(di['members'], e):
            r = first_nonmember(m, x, limits, depth + 1)
            if r:
                return r
    if t == 'struct' and k == 'obj':
        if set(e) - set(di['members']):
            return t, 'unknownkey'
        if set(di['members']) - set(e):
            return t, 'incomplete' if depth else 'incomplete-toplevel'
        for n, x in e.items():
            r = first_nonmember(di['members'][n], x, limits, depth + 1)
            if r:
                return r
    if t in ('array', 'tuple', 'struct'):
        return t, 'wrongkind'
    if k == 'float' and not math.isfinite(e):
        return t, 'nonfinite'
    if t in ('double', 'int', 'scaled') and k in NATURAL[t]:
        return t, 'range'
    if k in NATURAL[t]:
        return t, 'badcontent'
    return t, k


def first_not_same(di, c, e, py=False, limits=True, prev=None):
    """(type kind, what was offered) at the first position where e does not denote c"""
    same = (lambda d, a, b, p: same_py(d, a, b, limits, p)) if py else same_wire
    if same(di, c, e, prev):
        return None
    t = di['type']
    k = kind(c)
    if t == 'array' and k == 'list' and kind(e) == 'list':
        if len(c) != len(e):
            return t, 'length-changed'
        for i, (a, b) in enumerate(zip(c, e)):
            r = first_not_same(di['members'], a, b, py, limits, _pidx(prev, i))
            if r:
                return r
    if t == 'tuple' and k == 'list' and kind(e) == 'list':
        if len(c) != len(e):
            return t, 'length-changed'
        for i, (m, a, b) in enumerate(zip(di['members'], c, e)):
            r = first_not_same(m, a, b, py, limits, _pidx(prev, i))
            if r:
                return r
    if t == 'struct' and k == 'obj' and kind(e) == 'obj':
        given = {n: v for n, v in c.items() if v is not None}
        pv = prev if isinstance(prev, dict) else {}
        if not set(given) <= set(e) or not set(e) <= set(given) | set(pv):
            return t, 'members-changed'
        for n in e:
            if n in given and n in di['members']:
                r = first_not_same(di['members'][n], given[n], e[n], py, limits, pv.get(n))
                if r and first_not_same(di['members'][n], given[n], e[n], py, limits, None):
                    return r
            elif e[n] != pv.get(n):
                return t, 'unoffered-member-changed'
    if t in ('array', 'tuple', 'struct'):
        return t, 'wrongkind'
    if is_number(c) and t in ('double', 'int', 'scaled'):
        if k == 'float' and not math.isfinite(c):
            return t, 'nonfinite'
        if not whole(c) and t != 'double' and not (py and t == 'scaled'):
            return t, 'fraction'
        return t, 'number-changed'
    return t, k
