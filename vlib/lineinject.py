"""'another thread acts exactly here': run a function in a real second thread before the k-th line that the
arming thread executes inside a set of watched code objects (sys.monitoring LINE events).

The second thread is joined before the first continues, so the outcome is deterministic.  If the second thread
does not finish (it waits for a lock the first one holds) the first continues and the second is joined at disarm():
that is the interleaving a real scheduler would produce there as well."""
import sys
import threading


class LineInjector:
    TOOL = 4

    def __init__(self, *funcs, name='lineinject', instructions=False):
        """instructions=True: the points are not the line starts but the places inside the functions where CPython can
        really switch threads: right after a call instruction returned and at backward jumps (eval-breaker checks).
        This reaches windows inside one source line, e.g. between computing a value and storing it."""
        self.mon = sys.monitoring
        self.instructions = instructions
        self.allowed = {}
        self.codes = []
        for f in funcs:
            code = getattr(f, '__code__', None) or getattr(getattr(f, '__func__', None), '__code__', None)
            if code is not None:
                self.codes.append(code)
        self.owner = None
        self.k = self.count = 0
        self.fn = None
        self.thread = None
        self.injected = 0
        self.blocked = 0
        self.mon.use_tool_id(self.TOOL, name)
        self.event = self.mon.events.INSTRUCTION if instructions else self.mon.events.LINE
        if instructions:
            import dis
            for c in self.codes:
                ins = list(dis.get_instructions(c))
                ok = set()
                for a, b in zip(ins, ins[1:]):
                    if a.opname.startswith('CALL') or a.opname in ('JUMP_BACKWARD', 'FOR_ITER', 'SEND'):
                        ok.add(b.offset)
                self.allowed[c] = ok
        self.mon.register_callback(self.TOOL, self.event, self._on_line)
        for c in self.codes:
            self.mon.set_local_events(self.TOOL, c, self.event)

    def close(self):
        for c in self.codes:
            self.mon.set_local_events(self.TOOL, c, 0)
        self.mon.register_callback(self.TOOL, self.event, None)
        self.mon.free_tool_id(self.TOOL)

    def arm(self, k, fn):
        self.owner, self.k, self.count, self.fn, self.thread = threading.get_ident(), k, 0, fn, None

    def disarm(self):
        """-> True if the function was injected; joins a second thread that had to wait"""
        self.owner = None
        t, self.thread = self.thread, None
        if t is not None:
            t.join(10)
            if t.is_alive():
                raise RuntimeError('injected thread never finished')
        return t is not None

    def _on_line(self, code, line):
        if self.owner != threading.get_ident() or self.thread is not None:
            return
        if self.instructions and line not in self.allowed.get(code, ()):
            return          # (for INSTRUCTION events the second argument is the instruction offset)
        self.count += 1
        if self.count == self.k:
            self.injected += 1
            self.thread = threading.Thread(target=self.fn)
            self.thread.start()
            self.thread.join(0.05)
            if self.thread.is_alive():
                self.blocked += 1
