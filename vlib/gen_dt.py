"""generators: datainfo trees, valid values, hostile candidates (standard library only, no frappy)"""
import base64
import json
import math
import sys

from vlib import refdt

FMAX = sys.float_info.max

SCALES = [0.1, 0.25, 0.001, 3, 1e6, 0.5, 1e-3, 7e-5, 0.0009765625, 0.1234567]     # also scales with more than 6 significant digits
ENUMS = [{'a': 1, 'b': 2}, {'off': 0, 'on': 1}, {'x': -3, 'y': 100, 'z': 7}, {'single': 5},
         {'lo': -2147483648, 'hi': 2147483647}, {'n0': 0, 'n1': 1, 'n2': 2, 'n5': 5, 'big': 1 << 40},
         {'idle': 100, 'busy': 300, 'error': 400},
         # labels that look like numbers (gain / range selectors) and are the code of ANOTHER member
         {'1': 0, '2': 1, '4': 2, '8': 3}, {'10': 1, '1': 10, 'x': 2},
         # labels that are words of other notations (JSON, python)
         {'true': 1, 'false': 0, 'null': 2}, {'None': 0, 'nan': 1, 'inf': 2},
         # labels that are argument names of constructors ('self' is the label frappy.mixins.HasControlledBy uses)
         {'self': 0, 'other': 1}, {'members': 1, 'enum_or_name': 3}, {'unit': 1, 'default': 2}]
WORDS = ['true', 'false', 'null', 'it is true', 'null ', 'None', 'True', 'nan', 'inf', '-inf', '1e5', "b'x'"]
UNITS = ['', 'K', 'mbar/s', '$', '$/min', 'µm', 'm2', 'cm-1', '1/s', 'W/m2', 'e.']      # also units that end like a number
ASCII_ALPHA = 'ab"\\\n\t xyz\'[](),{}:0159-.#'
UTF_ALPHA = ASCII_ALPHA + 'äπ€𝄞é'
MEMBER_NAMES = ['a', 'b', 'c', 'd', 'value', 'x_1']


def gen_double(rng):
    c = rng.choice(['free', 'range', 'range', 'degenerate', 'huge', 'tiny', 'halfopen', 'res', 'neg'])
    d = {'type': 'double'}
    if c == 'range':
        lo = rng.choice([-10.0, 0.0, 1.5, -1e3, 0.1, 1e6, -273.15])
        d.update(min=lo, max=lo + rng.choice([1.0, 10.0, 0.5, 1e-3, 1e5]))
    elif c == 'degenerate':
        x = rng.choice([3.0, 0.0, -1.25, 1e10])
        d.update(min=x, max=x)
    elif c == 'huge':
        d.update(min=-1e308, max=rng.choice([1e308, 1.79e308]))
    elif c == 'tiny':
        d.update(min=rng.choice([0.0, -5e-324, -1e-300]), max=rng.choice([1e-300, 5e-324]))
    elif c == 'halfopen':
        if rng.random() < 0.5:
            d.update(min=rng.choice([0.0, -5.0, 10.0]))
        else:
            d.update(max=rng.choice([0.0, 100.0, -1.0]))
    elif c == 'res':
        lo = rng.choice([0.0, -50.0])
        d.update(min=lo, max=lo + 100.0)
        r = rng.choice(['abs', 'rel0', 'both', 'bigrel'])
        if r == 'abs':
            d['absolute_resolution'] = rng.choice([0.5, 1e-3, 10.0])
        elif r == 'rel0':
            d['relative_resolution'] = 0.0
        elif r == 'both':
            d.update(absolute_resolution=0.01, relative_resolution=0.0)
        else:
            d['relative_resolution'] = rng.choice([0.01, 0.5])
    elif c == 'neg':
        d.update(min=-100.0, max=-1.0)
    if rng.random() < 0.3:
        d['unit'] = rng.choice(UNITS[1:])
    if rng.random() < 0.15:
        d['fmtstr'] = rng.choice(['%.3f', '%.1e', '%.12g'])
    return d


def gen_int(rng):
    lo = rng.choice([0, -5, 10, -2 ** 40, 7, -1, -(1 << 63), 0, 1, -(1 << 64)])
    hi = min(lo + rng.choice([0, 1, 10, 2 ** 33, 255, 1 << 64, 3]), 1 << 64)
    return {'type': 'int', 'min': lo, 'max': hi}


def gen_scaled(rng):
    sc = rng.choice(SCALES)
    lo = rng.choice([0, -10, 5, -1000, 1, 2 ** 31 - 20, -2 ** 31])
    hi = lo + rng.choice([0, 10, 1000, 1, 15])
    d = {'type': 'scaled', 'scale': sc, 'min': lo, 'max': hi}
    r = rng.random()
    if r < 0.25 and abs(lo) < 1e6:
        # limits that are not aligned to the grid
        d['_fmin'] = (lo + rng.choice([0.4, -0.4, 0.3, 0.0])) * sc
        d['_fmax'] = (hi + rng.choice([0.4, -0.4, 0.0, 0.45])) * sc
        if d['_fmin'] > d['_fmax']:
            d['_fmin'], d['_fmax'] = d['_fmax'], d['_fmin']
    if rng.random() < 0.3:
        d['unit'] = rng.choice(UNITS[1:])
    if rng.random() < 0.15:
        d['absolute_resolution'] = rng.choice([0.0, sc * 2, 1.0])
    if rng.random() < 0.1:
        d['relative_resolution'] = rng.choice([0.0, 1e-3])
    return d


def gen_string(rng):
    lo = rng.choice([0, 0, 0, 2, 1])
    d = {'type': 'string'}
    if lo:
        d['minchars'] = lo
    r = rng.random()
    if r < 0.7:
        d['maxchars'] = lo + rng.choice([0, 3, 10, 1, 200])
    if rng.random() < 0.4:
        d['isUTF8'] = True
    if d.get('maxchars') == 0 and lo == 0:
        d['maxchars'] = rng.choice([0, 1])   # maxchars 0: only the empty string
    return d


def gen_blob(rng):
    lo = rng.choice([0, 0, 2, 1])
    d = {'type': 'blob', 'maxbytes': lo + rng.choice([0, 3, 10, 1, 40]) or 1}
    if lo:
        d['minbytes'] = lo
    return d


def gen_leaf(rng, kinds=None):
    k = rng.choice(kinds or ['double', 'int', 'scaled', 'bool', 'enum', 'string', 'blob'])
    if k == 'double':
        return gen_double(rng)
    if k == 'int':
        return gen_int(rng)
    if k == 'scaled':
        return gen_scaled(rng)
    if k == 'bool':
        return {'type': 'bool'}
    if k == 'enum':
        return {'type': 'enum', 'members': dict(rng.choice(ENUMS))}
    if k == 'string':
        return gen_string(rng)
    return gen_blob(rng)


def gen_tree(rng, depth, pcontainer=0.65):
    if depth <= 0 or rng.random() > pcontainer:
        return gen_leaf(rng)
    k = rng.choice(['array', 'tuple', 'struct'])
    if k == 'array':
        lo = rng.choice([0, 0, 1, 2])
        return {'type': 'array', 'minlen': lo, 'maxlen': lo + rng.choice([0, 1, 3, 5]) or 1,
                'members': gen_tree(rng, depth - 1, pcontainer)}
    if k == 'tuple':
        return {'type': 'tuple', 'members': [gen_tree(rng, depth - 1, pcontainer) for _ in range(rng.choice([1, 2, 2, 3]))]}
    names = rng.sample(MEMBER_NAMES, rng.choice([1, 2, 3, 4]))
    d = {'type': 'struct', 'members': {n: gen_tree(rng, depth - 1, pcontainer) for n in names}}
    r = rng.random()
    if r < 0.3:
        d['optional'] = []
    elif r < 0.7:
        d['optional'] = rng.sample(names, rng.randint(0, len(names)))
        if set(d['optional']) == set(names):
            del d['optional']    # "all optional" is expressed by the absent key
        elif d['optional'] and rng.random() < 0.12:
            # a name listed twice (lists merged from two sources): the same set of optional members
            d['optional'].insert(rng.randrange(len(d['optional']) + 1), rng.choice(d['optional']))
    return d


def tree_shape(di, depth=0):
    """coarse shape used for distinct-case signatures"""
    t = di['type']
    if t == 'array':
        return 'A(' + tree_shape(di['members']) + ')'
    if t == 'tuple':
        return 'T(' + ','.join(tree_shape(m) for m in di['members']) + ')'
    if t == 'struct':
        return 'S(' + ','.join(tree_shape(m) for m in di['members'].values()) + ('' if 'optional' not in di else '?%d' % len(di['optional'])) + ')'
    return t[:2]


def public(di):
    """the datainfo without the generator's private keys"""
    if isinstance(di, dict):
        return {k: public(v) for k, v in di.items() if not k.startswith('_')}
    if isinstance(di, list):
        return [public(v) for v in di]
    return di


# ---------------------------------------------------------------- valid values (wire form)

def _double_values(di, rng):
    lo, hi = di.get('min', -FMAX), di.get('max', FMAX)
    out = [lo, hi]
    if math.isfinite(hi - lo):
        out.append(lo + (hi - lo) * rng.random())
        out.append(lo + (hi - lo) * 0.5)
    else:
        out += [rng.uniform(-1e9, 1e9), 0.1, 1e300, -1e-300]
    if lo <= 0 <= hi:
        out += [0.0, 0]
    out = [x for x in out if lo <= x <= hi]
    return out


def gen_valid(di, rng, stored=False):
    """a value of the value set, as JSON.  stored=True: complete structs only"""
    t = di['type']
    if t == 'double':
        return rng.choice(_double_values(di, rng))
    if t == 'int':
        lo, hi = di['min'], di['max']
        return rng.choice([lo, hi, rng.randint(lo, hi), min(hi, max(lo, 0))])
    if t == 'scaled':
        lo, hi = refdt.scaled_limits(di)
        return rng.choice([lo, hi, rng.randint(lo, hi)])
    if t == 'bool':
        return rng.choice([True, False])
    if t == 'enum':
        return rng.choice(list(di['members'].values()))
    if t == 'string':
        lo = di.get('minchars', 0)
        hi = di.get('maxchars', lo + 12)
        n = rng.choice([lo, hi if hi <= lo + 300 else lo + 300, rng.randint(lo, min(hi, lo + 8))])
        alpha = UTF_ALPHA if di.get('isUTF8') else ASCII_ALPHA
        txt = ''.join(rng.choice(alpha) for _ in range(n))
        if n >= 3 and rng.random() < 0.06:
            # words of other notations inside a text are just text
            fit = [w_ for w_ in WORDS if len(w_) <= n]
            if fit:
                w_ = rng.choice(fit)
                txt = w_ + txt[len(w_):]
        if n >= 2 and rng.random() < 0.15:
            # white space at the ends belongs to the value
            ws = rng.choice([' ', '\n', '\t', '  '])[:1]
            txt = (ws + txt[1:]) if rng.random() < 0.5 else (txt[:-1] + ws)
        return txt
    if t == 'blob':
        lo, hi = di.get('minbytes', 0), di['maxbytes']
        n = rng.choice([lo, hi, rng.randint(lo, hi)])
        if n >= 4 and rng.random() < 0.05:
            w_ = rng.choice([b'null', b'true', b'false', b'None'])[:n]
            b = w_ + bytes(rng.randrange(256) for _ in range(n - len(w_))) if rng.random() < 0.5 else (w_ * n)[:n]
        elif rng.random() < 0.2:
            b = bytes((i * 37 + n) % 256 for i in range(n))
        else:
            b = bytes(rng.randrange(256) for _ in range(n))
        return base64.b64encode(b).decode()
    if t == 'array':
        lo, hi = di.get('minlen', 0), di['maxlen']
        n = rng.choice([lo, hi, rng.randint(lo, hi)])
        return [gen_valid(di['members'], rng, stored) for _ in range(n)]
    if t == 'tuple':
        return [gen_valid(m, rng, stored) for m in di['members']]
    if t == 'struct':
        opt = set() if stored else set(di.get('optional', di['members']))
        return {n: gen_valid(m, rng, stored) for n, m in di['members'].items()
                if n not in opt or rng.random() < 0.6}
    raise ValueError(t)


def zero_like(di):
    """the valid value that is 'false' in python terms (0, 0.0, False, '', b'', ()), as JSON - or None when there is none"""
    t = di['type']
    if t == 'int':
        return 0 if di['min'] <= 0 <= di['max'] else None
    if t == 'scaled':
        lo, hi = refdt.scaled_limits(di)
        return 0 if lo <= 0 <= hi else None
    if t == 'double':
        return 0.0 if di.get('min', 0.0) <= 0.0 <= di.get('max', 0.0) else None
    if t == 'bool':
        return False
    if t == 'enum':
        return 0 if 0 in di['members'].values() else None
    if t == 'string':
        return '' if not di.get('minchars', 0) else None
    if t == 'blob':
        return '' if not di.get('minbytes', 0) else None
    if t == 'array':
        return [] if not di.get('minlen', 0) else None
    return None


def all_blob_bytes():
    return base64.b64encode(bytes(range(256))).decode()


def to_py(di, w):
    """wire value -> natural python-side value (what driver code would hold)"""
    t = di['type']
    if t == 'scaled':
        return float(w * di['scale'])
    if t == 'blob':
        return base64.b64decode(w)
    if t == 'array':
        return tuple(to_py(di['members'], e) for e in w)
    if t == 'tuple':
        return tuple(to_py(m, e) for m, e in zip(di['members'], w))
    if t == 'struct':
        return {n: to_py(di['members'][n], e) for n, e in w.items()}
    return w


def complete(di, w, rng):
    """fill absent optional members (recursively) so that the value can be a stored value"""
    t = di['type']
    if t == 'array':
        return [complete(di['members'], e, rng) for e in w]
    if t == 'tuple':
        return [complete(m, e, rng) for m, e in zip(di['members'], w)]
    if t == 'struct':
        return {n: complete(m, w[n], rng) if n in w else gen_valid(m, rng, True) for n, m in di['members'].items()}
    return w


# ---------------------------------------------------------------- hostile candidates

HOSTILE = [None, True, False, 0, 1, -1, 3, 2.5, float('inf'), float('-inf'), float('nan'), 10 ** 30, 10 ** 400,
           '', '5', '1.5', 'abc', '!!!!', 'YW Jj', 'YWJj\n', 'YWJ', '=', [], [1], [1, 2, 3], [[1, 2]], [['a', 1]],
           [None], {}, {'a': 1}, {'zz': 1}, {'a': None}, 'a\0b', 'ä', 1.0, 0.0, 0.9999999, -0.0, 1e-320, 'a',
           'true', 'on', [True], [[]], {'a': {}}, 2 ** 53 + 1, -2 ** 63, 1.5e308 * 1,
           # fractions a few ulp away from a whole number (float noise of a driver's calculation)
           0.9999999999999999, 1.0000000000000002, 3.0000000000000004, 28.999999999999996, 4.999999999999999, -0.9999999999999999, 100.00000000000001,
           # big ones (error messages show the offending value, possibly shortened)
           {f'k{i}': i for i in range(50)}, list(range(60)), 'x' * 150, [[0] * 45], {'a': list(range(50))}]


def numeric_boundaries(di, rng):
    t = di['type']
    if t == 'double':
        lo, hi = di.get('min', -FMAX), di.get('max', FMAX)
        rel = di.get('relative_resolution', refdt.REL_RES)
        ab = di.get('absolute_resolution', 0.0)
        out = []
        for lim, sgn in ((hi, 1), (lo, -1)):
            if abs(lim) >= FMAX:
                continue
            prec = max(abs(lim) * rel, ab)
            out += [lim + sgn * prec * 0.5, lim + sgn * prec * 0.98, lim + sgn * prec * 1.5, lim + sgn * prec * 3,
                    lim + sgn * (abs(lim) * 1e-3 + 1e-3), lim + sgn * 1.0, math.nextafter(lim, sgn * math.inf),
                    lim + sgn * max(prec * 1.0001, 1e-12)]
        return out or [1e308, -1e308]
    if t == 'int':
        lo, hi = di['min'], di['max']
        return [lo - 1, hi + 1, lo - 0.5, hi + 0.5, float(lo), float(hi), hi + 1e-9, lo + 0.5, hi * 2 + 1, float(hi) + 1.0]
    if t == 'scaled':
        lo, hi = refdt.scaled_limits(di)
        return [lo - 1, hi + 1, lo - 2, hi + 2, lo + 0.5, hi + 0.7, 1.7, float(lo), hi + 100, lo - 0.4]
    return []


def mutate(di, v, rng, depth=0):
    """replace one position of a valid wire value by a hostile candidate"""
    t = di['type']
    r = rng.random()
    if t == 'array' and isinstance(v, list):
        if v and r < 0.5:
            i = rng.randrange(len(v))
            v = list(v)
            v[i] = mutate(di['members'], v[i], rng, depth + 1)
            return v
        if r < 0.65:
            return v + [gen_valid(di['members'], rng)] * (di['maxlen'] - len(v) + 1)    # too long
        if r < 0.75 and di.get('minlen', 0) > 0:
            return v[:di['minlen'] - 1]                                                  # too short
    elif t == 'tuple':
        if r < 0.55:
            i = rng.randrange(len(v))
            v = list(v)
            v[i] = mutate(di['members'][i], v[i], rng, depth + 1)
            return v
        if r < 0.75:
            return v + [rng.choice([0, v[-1]])] if rng.random() < 0.5 else v[:-1]
    elif t == 'struct':
        if v and r < 0.5:
            k = rng.choice(sorted(v))
            v = dict(v)
            v[k] = mutate(di['members'][k], v[k], rng, depth + 1)
            return v
        if r < 0.8:
            v = dict(v)
            q = rng.random()
            if v and q < 0.4:
                v.pop(rng.choice(sorted(v)))
            elif q < 0.7:
                v['zz'] = 1
            elif v:
                v[rng.choice(sorted(v))] = None
            else:
                v['A'] = 0
            return v
    elif t in ('double', 'int', 'scaled') and r < 0.6:
        return rng.choice(numeric_boundaries(di, rng))
    elif t == 'string' and r < 0.4:
        lo, hi = di.get('minchars', 0), di.get('maxchars', None)
        c = ['a' * (lo - 1) if lo else 'a\0', 'ä' * max(lo, 1), 'x\0' + 'y' * lo]
        if hi is not None:
            c.append('b' * (hi + 1))
            # too long, and full of characters that mean something to formatting code
            c += [('100%' * (hi + 1))[:hi + 1], ('%s{0}%d' * (hi + 1))[:hi + 2], '%' * (hi + 1)]
        if lo > 1:
            c += ['%', '%s'[:lo - 1], '{}'[:lo - 1]]
        return rng.choice(c)
    elif t == 'blob' and r < 0.4:
        lo, hi = di.get('minbytes', 0), di['maxbytes']
        return rng.choice([base64.b64encode(b'x' * (hi + 1)).decode(), base64.b64encode(b'y' * max(lo - 1, 0)).decode(),
                           'YW=Jj', 'Y', 'YWJj====', ' YWJj', 'YW-_', base64.b64encode(b'z' * hi).decode() + '\n'])
    elif t == 'enum' and r < 0.4:
        codes = list(di['members'].values())
        names = list(di['members'])
        return rng.choice([max(codes) + 1, min(codes) - 1, names[0], names[0].upper(), float(codes[0]), codes[0] + 0.5,
                           str(codes[0]), [codes[0]]])
    return rng.choice(HOSTILE)


PY_HOSTILE = [b'12.5', b' 7 ', b'1e3', b'nan', b'1_0', b'', b'abc', b'273.15\r\n', b'5', b'1', b'true', b'0']


def _py_hostile_at(di, c, rng):
    """replace one leaf position by raw bytes, e.g. the unparsed reply of a device (python side only)"""
    t = di['type']
    if t == 'array' and isinstance(c, list) and c:
        i = rng.randrange(len(c))
        return c[:i] + [_py_hostile_at(di['members'], c[i], rng)] + c[i + 1:]
    if t == 'tuple' and isinstance(c, list) and len(c) == len(di['members']):
        i = rng.randrange(len(c))
        return c[:i] + [_py_hostile_at(di['members'][i], c[i], rng)] + c[i + 1:]
    if t == 'struct' and isinstance(c, dict) and c:
        n = rng.choice(sorted(c))
        if n in di['members']:
            return dict(c, **{n: _py_hostile_at(di['members'][n], c[n], rng)})
    if t == 'enum' and rng.random() < 0.6:
        # a member object of ANOTHER enum that carries the same name (an extended copy, the enum of an equally named
        # parameter of another module): marker, turned into a real member object by the check
        codes = sorted(di['members'].values())
        code = rng.choice(codes + [max(codes) + 1, min(codes) - 1, max(codes) + 100])
        label = rng.choice(['foreign', 'extra'] + list(di['members']))
        return {'__foreign_enum__': [code, label]}
    return rng.choice(PY_HOSTILE)


def mutate_py(di, v, rng):
    """hostile python-side candidates: a mutated wire value converted where natural, else raw"""
    if rng.random() < 0.06:
        try:
            return _to_py_lenient(di, _py_hostile_at(di, json.loads(json.dumps(v)), rng))
        except Exception:
            pass
    c = mutate(di, v, rng)
    try:
        if refdt.first_unnatural(di, c) is None or rng.random() < 0.5:
            return _to_py_lenient(di, c)
    except Exception:
        pass
    return c


def _to_py_lenient(di, c):
    t = di['type']
    try:
        if t == 'scaled' and refdt.is_number(c):
            return c * di['scale']
        if t == 'blob' and isinstance(c, str):
            return base64.b64decode(c, validate=True)
        if t == 'array' and isinstance(c, list):
            return tuple(_to_py_lenient(di['members'], e) for e in c)
        if t == 'tuple' and isinstance(c, list):
            return tuple(_to_py_lenient(m, e) for m, e in zip(di['members'], c)) + tuple(c[len(di['members']):])
        if t == 'struct' and isinstance(c, dict):
            return {n: _to_py_lenient(di['members'][n], e) if n in di['members'] else e for n, e in c.items()}
    except Exception:
        pass
    return c


# ---------------------------------------------------------------- nested pairs for compatible()

def widen(di, rng, cross=True):
    """a datainfo whose value set contains that of di by construction (the pairings compatible()
    is written to support).  returns None if no such pairing applies"""
    t = di['type']
    if t == 'double':
        d = {'type': 'double'}
        if 'min' in di and rng.random() < 0.7:
            d['min'] = di['min'] - rng.choice([0.0, 1.0, abs(di['min'])])
        if 'max' in di and rng.random() < 0.7:
            d['max'] = di['max'] + rng.choice([0.0, 1.0, abs(di['max'])])
        return d
    if t == 'int':
        lo, hi = di['min'], di['max']
        q = rng.random() if cross else 0.0
        if q < 0.4:
            return {'type': 'int', 'min': max(lo - rng.choice([0, 1, 100]), -(1 << 64)), 'max': min(hi + rng.choice([0, 1, 100]), 1 << 64)}
        if q < 0.6 and abs(lo) < 1 << 52 and abs(hi) < 1 << 52:
            return {'type': 'double', 'min': float(lo) - rng.choice([0.0, 0.5]), 'max': float(hi) + rng.choice([0.0, 0.5])}
        if q < 0.75 and abs(lo) < 1 << 30 and abs(hi) < 1 << 30:
            sc = rng.choice([1, 0.5, 0.25])
            return {'type': 'scaled', 'scale': sc, 'min': int(lo / sc) - rng.choice([0, 2]), 'max': int(hi / sc) + rng.choice([0, 2])}
        if q < 0.9 and hi - lo <= 12:
            members = {f'm{i - lo}': i for i in range(lo, hi + 1)}
            if rng.random() < 0.5:
                members['extra'] = hi + 5
            return {'type': 'enum', 'members': members}
        if 0 <= lo and hi <= 1:
            return {'type': 'bool'}
        return {'type': 'int', 'min': lo, 'max': hi}
    if t == 'scaled':
        lo, hi = refdt.scaled_limits(di)
        sc = di['scale']
        if rng.random() < 0.5 or not cross:
            return {'type': 'scaled', 'scale': sc, 'min': lo - rng.choice([0, 1, 50]), 'max': hi + rng.choice([0, 1, 50])}
        return {'type': 'double', 'min': min(lo * sc, (lo - 1) * sc), 'max': max(hi * sc, (hi + 1) * sc)}
    if t == 'bool':
        q = rng.random() if cross else 0.0
        if q < 0.3:
            return {'type': 'bool'}
        if q < 0.6:
            return {'type': 'int', 'min': rng.choice([0, -1]), 'max': rng.choice([1, 5])}
        if q < 0.8:
            return {'type': 'double', 'min': 0.0, 'max': 1.0}
        return {'type': 'enum', 'members': {'off': 0, 'on': 1, 'auto': 2}}
    if t == 'enum':
        m = dict(di['members'])
        if rng.random() < 0.5:
            m['zz_more'] = max(m.values()) + 1
        q = rng.random()
        if q < 0.3:
            # the same codes under other labels (a node spelling its labels differently): the value sets are still nested
            m = {(k.upper() if k.upper() != k else 'L_' + k): v for k, v in m.items()}
        elif q < 0.4:
            m = {f'code{v}'.replace('-', 'm'): v for v in m.values()}
        return {'type': 'enum', 'members': m}
    if t == 'string':
        d = {'type': 'string'}
        lo = di.get('minchars', 0)
        if lo and rng.random() < 0.5:
            d['minchars'] = lo - rng.choice([0, 1])
            if d['minchars'] == 0:
                del d['minchars']
        if 'maxchars' in di and rng.random() < 0.7:
            d['maxchars'] = di['maxchars'] + rng.choice([0, 1, 10])
        if di.get('isUTF8') or rng.random() < 0.3:
            d['isUTF8'] = True
        return d
    if t == 'blob':
        d = {'type': 'blob', 'maxbytes': di['maxbytes'] + rng.choice([0, 1, 10])}
        if di.get('minbytes', 0) and rng.random() < 0.5:
            d['minbytes'] = di['minbytes'] - rng.choice([0, 1])
            if d['minbytes'] == 0:
                del d['minbytes']
        return d
    if t == 'array':
        m = widen(di['members'], rng, cross)
        if m is None:
            return None
        return {'type': 'array', 'minlen': max(di.get('minlen', 0) - rng.choice([0, 1]), 0), 'maxlen': di['maxlen'] + rng.choice([0, 1, 5]), 'members': m}
    if t == 'tuple':
        ms = [widen(m, rng, cross) for m in di['members']]
        if None in ms:
            return None
        return {'type': 'tuple', 'members': ms}
    if t == 'struct':
        ms = {n: widen(m, rng, cross) for n, m in di['members'].items()}
        if None in ms.values():
            return None
        opt = list(di.get('optional', di['members']))
        d = {'type': 'struct', 'members': ms}
        if rng.random() < 0.4:
            ms['new_opt'] = gen_leaf(rng)
            opt.append('new_opt')
        if set(opt) != set(ms):
            d['optional'] = opt
        return d
    return None


def narrow_one(di, rng):
    """break nestedness in one dimension: a datainfo that lacks at least one value of di (or None)"""
    t = di['type']
    if t == 'double':
        if 'max' in di and di.get('min', -FMAX) < di['max']:
            lo = di.get('min', di['max'] - 10)
            return dict(di, max=lo * 0.5 + di['max'] * 0.5)
        if 'max' in di and 'min' in di:
            return None     # degenerate range
        if 'min' in di:
            return dict(di, min=di['min'] + 1.0)
        if 'max' in di:
            return dict(di, max=di['max'] - 1.0)
        return dict(di, max=1e10)
    if t == 'int':
        if di['min'] < di['max']:
            return dict(di, max=di['max'] - 1) if rng.random() < 0.5 else dict(di, min=di['min'] + 1)
        return None
    if t == 'scaled':
        lo, hi = refdt.scaled_limits(di)
        if hi - lo >= 4:
            d = {k: v for k, v in di.items() if not k.startswith('_')}
            d.update(min=lo, max=hi - 3)
            return d
        return None
    if t == 'enum':
        if len(di['members']) > 1:
            m = dict(di['members'])
            m.pop(rng.choice(sorted(m)))
            return {'type': 'enum', 'members': m}
        return None
    if t == 'string':
        if di.get('isUTF8') and rng.random() < 0.4:
            d = dict(di)
            del d['isUTF8']
            return d
        hi = di.get('maxchars')
        if hi is None:
            return dict(di, maxchars=di.get('minchars', 0) + 5)
        if hi > di.get('minchars', 0):
            return dict(di, maxchars=hi - 1)
        return None
    if t == 'blob':
        if di['maxbytes'] > di.get('minbytes', 0):
            return dict(di, maxbytes=di['maxbytes'] - 1) if di['maxbytes'] > 1 else dict(di, minbytes=1)
        return None
    if t == 'array':
        if rng.random() < 0.5 and di['maxlen'] > max(di.get('minlen', 0), 1):
            return dict(di, maxlen=di['maxlen'] - 1)
        m = narrow_one(di['members'], rng)
        return None if m is None or di['maxlen'] == 0 else dict(di, members=m)
    if t == 'tuple':
        i = rng.randrange(len(di['members']))
        m = narrow_one(di['members'][i], rng)
        if m is None:
            return None
        ms = list(di['members'])
        ms[i] = m
        return dict(di, members=ms)
    if t == 'struct':
        opt = di.get('optional', list(di['members']))
        if opt and rng.random() < 0.4:
            # an optional member of the source becomes mandatory in the target
            k = rng.choice(sorted(opt))
            return dict(di, optional=[o for o in opt if o != k])
        k = rng.choice(sorted(di['members']))
        m = narrow_one(di['members'][k], rng)
        if m is None:
            return None
        return dict(di, members=dict(di['members'], **{k: m}))
    return None


def with_lone_surrogate(di, w, rng):
    """-> (value, True) with one character of one isUTF8 string leaf replaced by a lone surrogate code point, or
    (w, False) if there is no suitable leaf.  A lone surrogate is not well-formed Unicode: the reference model does not
    judge whether such a string is a member; checks use it only for values the real datatype has accepted"""
    t = di['type']
    if t == 'string':
        if di.get('isUTF8') and isinstance(w, str) and len(w) >= 1:
            i = rng.randrange(len(w))
            return w[:i] + rng.choice(['\ud83d', '\udc00', '\ud800']) + w[i + 1:], True
        return w, False
    if t == 'array' and isinstance(w, list) and w:
        i = rng.randrange(len(w))
        v, ok = with_lone_surrogate(di['members'], w[i], rng)
        return (w[:i] + [v] + w[i + 1:], True) if ok else (w, False)
    if t == 'tuple' and isinstance(w, list):
        for i in rng.sample(range(len(w)), len(w)):
            v, ok = with_lone_surrogate(di['members'][i], w[i], rng)
            if ok:
                return w[:i] + [v] + w[i + 1:], True
        return w, False
    if t == 'struct' and isinstance(w, dict):
        for k in rng.sample(sorted(w), len(w)):
            if k in di['members']:
                v, ok = with_lone_surrogate(di['members'][k], w[k], rng)
                if ok:
                    return dict(w, **{k: v}), True
        return w, False
    return w, False
