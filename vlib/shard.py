"""entry point of one workload subprocess: python -m vlib.shard CNN <shard.json> <result.json>"""
import faulthandler
import importlib
import json
import os
import sys
import traceback


def main():
    prop, shard_file, result_file = sys.argv[1:4]
    with open(shard_file, encoding='utf-8') as f:
        shard = json.load(f)
    # wall-clock watchdog: its firing is *inconclusive* (the runner sees a missing result file)
    faulthandler.dump_traceback_later(shard.get('wall_limit', 900), exit=True)
    from vlib import env
    env.setup(provision=shard.get('provision', True))
    mod = importlib.import_module('checks.' + prop.lower())
    try:
        if shard.get('replay_many') is not None:
            from vlib import rec
            parts = [mod.replay(c) for c in shard['replay_many']]
            tot = rec.merge(parts)
            tot['observed']['corpus_replays'] = len(parts)
            tot['evaluations'] = 0   # regression corpus does not count as exploration
            tot['distinct'] = []
            tot['nontrivial'] = []
            tot['samples'] = []
            tot['violations'] = list(tot['violations'].values())
            tot['observed'] = {'corpus_replays': len(parts)}
            res = tot
        elif shard.get('replay') is not None:
            res = mod.replay(shard['replay'])
        else:
            res = mod.run_shard(shard)
    except BaseException as e:   # harness failure -> inconclusive, never a verdict
        traceback.print_exc()
        res = {'harness_error': f'{type(e).__name__}: {e}', 'traceback': traceback.format_exc()[-3000:]}
    tmp = result_file + '.tmp'
    with open(tmp, 'w', encoding='utf-8') as f:
        json.dump(res, f)
    os.replace(tmp, result_file)
    sys.stdout.flush()
    sys.stderr.flush()
    os._exit(0)   # leaked daemon/non-daemon threads of the workload must not keep the shard alive


if __name__ == '__main__':
    main()
