"""E3 - wire-level fakes at the socket API (cooperative, for runs under vlib.detsched)

`install(asynconn_module)` rebinds the names `socket` and `select` as module globals of
frappy.lib.asynconn only (the standard library keeps the real ones), so the real AsynTcp with its
error mapping and framing is executed on top of FakeSocket.

A *listener* (registered per (host, port)) is a callable  listener(sock) -> None | raise
called on create_connection; it typically starts a peer thread that talks through sock.peer_*.
"""
import socket as _socket

from vlib import detsched as D


class FakeSocket:
    label = 'socket'

    def __init__(self, addr):
        self.addr = addr
        self.timeout = None
        self.inbox = b''          # bytes the peer sent to us
        self.outbox = b''         # bytes we sent to the peer and the peer has not taken yet
        self.closed = False       # closed / shut down locally
        self.peer_closed = False
        self.peer_wait = _Wait()  # the peer side blocks on this
        self.sent_log = []        # (virtual time, bytes) of every sendall
        self.split_send = False   # yield in the middle of a sendall
        self.fail_send = None     # exception to raise on the next sendall

    # ---- the socket API used by AsynTcp / closeSocket
    def settimeout(self, t):
        self.timeout = t

    def recv(self, n):
        s = D.CURRENT
        s.yield_point('sock.recv')
        while not self.inbox and not self.closed and not self.peer_closed:
            if not s.block(self, self.timeout):
                raise _socket.timeout('timed out')
        if self.closed and not self.inbox:
            raise OSError(9, 'Bad file descriptor')
        if self.inbox:
            data, self.inbox = self.inbox[:n], self.inbox[n:]
            return data
        return b''     # orderly shutdown by the peer

    def sendall(self, data):
        s = D.CURRENT
        s.yield_point('sock.sendall')
        if self.fail_send is not None:
            e, self.fail_send = self.fail_send, None
            raise e
        if self.closed:
            raise OSError(9, 'Bad file descriptor')
        if self.peer_closed:
            raise BrokenPipeError(32, 'Broken pipe')
        self.sent_log.append((s.now, bytes(data)))
        if self.split_send and len(data) > 1:
            h = len(data) // 2
            self.outbox += data[:h]
            s.wake(self.peer_wait)
            s.yield_point('sock.sendall.mid')
            self.outbox += data[h:]
        else:
            self.outbox += data
        s.wake(self.peer_wait)

    send_limit = 4096      # send() takes at most this many bytes per call (free space in the socket's send buffer)

    def send(self, data):
        """like socket.send: may take only a part of the data and says how much"""
        n = min(len(data), self.send_limit)
        self.sendall(data[:n])
        return n

    def shutdown(self, how):
        if self.closed:
            raise OSError(107, 'Transport endpoint is not connected')
        self.closed = True
        s = D.CURRENT
        if s is not None:
            s.wake(self)
            s.wake(self.peer_wait)

    def close(self):
        self.closed = True
        s = D.CURRENT
        if s is not None:
            s.wake(self)
            s.wake(self.peer_wait)

    def fileno(self):
        return id(self) & 0xffff

    # ---- the far end (used by peer threads of the harness)
    def peer_send(self, data):
        s = D.CURRENT
        s.yield_point('peer.send')
        if self.closed:
            return False
        self.inbox += data
        s.wake(self)
        return True

    def peer_recv(self, timeout=None):
        """bytes the client sent (b'' when the client closed); None on virtual time-out"""
        s = D.CURRENT
        s.yield_point('peer.recv')
        while not self.outbox and not self.closed:
            if not s.block(self.peer_wait, timeout):
                return None
        data, self.outbox = self.outbox, b''
        return data

    def peer_close(self):
        s = D.CURRENT
        s.yield_point('peer.close')
        self.peer_closed = True
        s.wake(self)


class _Wait:
    label = 'peer-wait'


class FakeSocketModule:
    """stands in for the module `socket` inside frappy.lib.asynconn"""
    timeout = _socket.timeout
    error = _socket.error
    gaierror = _socket.gaierror
    SHUT_RDWR = _socket.SHUT_RDWR

    def __init__(self):
        self.listeners = {}
        self.attempts = []      # (virtual time, address, outcome)
        self.sockets = []

    def listen(self, host, port, listener):
        self.listeners[(host, port)] = listener

    def create_connection(self, addr, timeout=None):
        s = D.CURRENT
        s.yield_point('sock.connect')
        listener = self.listeners.get(tuple(addr))
        if listener is None:
            self.attempts.append((s.now, tuple(addr), 'refused'))
            raise ConnectionRefusedError(111, 'Connection refused')
        sock = FakeSocket(tuple(addr))
        sock.timeout = timeout
        try:
            listener(sock)
        except BaseException as e:
            self.attempts.append((s.now, tuple(addr), type(e).__name__))
            raise
        self.attempts.append((s.now, tuple(addr), 'connected'))
        self.sockets.append(sock)
        return sock

    def __getattr__(self, name):
        return getattr(_socket, name)


class FakeSelectModule:
    @staticmethod
    def select(rlist, wlist, xlist, timeout=None):
        ready = [x for x in rlist if getattr(x, 'inbox', b'') or getattr(x, 'peer_closed', False) or getattr(x, 'closed', False)]
        return ready, [], []


def install(asynconn):
    sm = FakeSocketModule()
    asynconn.socket = sm
    asynconn.select = FakeSelectModule()
    return sm
