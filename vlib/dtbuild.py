"""build frappy datatypes from generator specs (server side: constructors, not get_datatype)"""
from vlib import env

env.setup()

from frappy import datatypes as D   # noqa: E402
from frappy.errors import BadValueError   # noqa: E402


def build(di):
    t = di['type']
    if t == 'double':
        kw = {k: di[k] for k in ('unit', 'fmtstr', 'absolute_resolution', 'relative_resolution') if k in di}
        return D.FloatRange(di.get('min'), di.get('max'), **kw)
    if t == 'int':
        return D.IntRange(di['min'], di['max'])
    if t == 'scaled':
        kw = {k: di[k] for k in ('unit', 'fmtstr', 'absolute_resolution', 'relative_resolution') if k in di}
        sc = di['scale']
        return D.ScaledInteger(sc, di.get('_fmin', di['min'] * sc), di.get('_fmax', di['max'] * sc), **kw)
    if t == 'bool':
        return D.BoolType()
    if t == 'enum':
        return D.EnumType(di.get('_name', 'e'), members=dict(di['members']))
    if t == 'string':
        kw = {'isUTF8': True} if di.get('isUTF8') else {}
        return D.StringType(di.get('minchars', 0), di.get('maxchars', D.UNLIMITED), **kw)
    if t == 'blob':
        return D.BLOBType(di.get('minbytes', 0), di['maxbytes'])
    if t == 'array':
        return D.ArrayOf(build(di['members']), di.get('minlen', 0), di['maxlen'])
    if t == 'tuple':
        return D.TupleOf(*(build(m) for m in di['members']))
    if t == 'struct':
        return D.StructOf(di.get('optional'), **{n: build(m) for n, m in di['members'].items()})
    raise ValueError(t)


def plain(v):
    """frappy internal value -> plain python (EnumMember -> int, ImmutableDict -> dict) for JSON witnesses"""
    if isinstance(v, bool) or v is None or isinstance(v, (str, bytes, float)):
        return v
    if isinstance(v, int):
        return int(v)
    if isinstance(v, dict):
        return {k: plain(x) for k, x in v.items()}
    if isinstance(v, (list, tuple)):
        return [plain(x) for x in v]
    if hasattr(v, 'value') and hasattr(v, 'name') and hasattr(v, 'enum'):   # EnumMember
        return int(v.value)
    return v
