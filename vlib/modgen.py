"""modgen - generated module classes with recording fake drivers and their ground truth

A *module spec* is a plain dict (JSON-able) written by the generator; `build_class` turns it into a real
frappy module class.  The spec is the ground truth the oracles use (what is exported under which wire
name, what is read-only / constant, which datainfo applies, which limits and check hooks exist); it is
never derived from the built class.

driver functions append to the shared event log:  (kind, module name, accessible name, argument)
"""
from vlib import gen_dt, refdt

PREDEFINED = {'value', 'status', 'target', 'pollinterval', 'ramp', 'use_ramp', 'setpoint', 'time_to_target',
              'controlled_by', 'control_active', 'unit', 'loglevel', 'mode', 'ctrlpars', 'stop', 'reset', 'go',
              'abort', 'shutdown', 'communicate'}
NUMERIC = ('double', 'int', 'scaled')


def gen_param(rng, name, kinds=None, depth=None):
    depth = rng.choice([0, 0, 0, 1, 2]) if depth is None else depth
    spec = gen_dt.gen_leaf(rng, kinds) if kinds else gen_dt.gen_tree(rng, depth)
    spec = strip_private(spec)
    p = {'name': name, 'spec': spec, 'readonly': rng.random() < 0.3, 'constant': None, 'export': True,
         'default': gen_dt.complete(spec, gen_dt.gen_valid(spec, rng, True), rng),
         'has_read': rng.random() < 0.6, 'has_write': rng.random() < 0.7, 'write_returns': rng.choice(['value', 'value', 'none']),
         'check': None, 'limits': None}
    q = rng.random()
    if q < 0.1:
        p['constant'] = gen_dt.complete(spec, gen_dt.gen_valid(spec, rng, True), rng)
        # constants that are 'false' in python terms (enum member 0, empty blob, scaled 0, ...) are constants all the same
        if gen_dt.zero_like(spec) is not None and rng.random() < 0.4:
            p['constant'] = gen_dt.zero_like(spec)
        p['readonly'] = True
        p['has_read'] = p['has_write'] = False
    q = rng.random()
    if q < 0.12:
        p['export'] = False
    elif q < 0.22:
        p['export'] = rng.choice(['_alias_' + name, 'custom' + name, '_x' + name])
    if not p['readonly'] and spec['type'] in NUMERIC and rng.random() < 0.5:
        p['limits'] = rng.choice(['minmax', 'limits', 'max', 'min'])
    if not p['readonly'] and rng.random() < 0.25:
        p['check'] = rng.choice(['reject-odd-length', 'reject-all', 'accept-all'])
    if p['readonly']:
        p['has_write'] = p['has_write'] and rng.random() < 0.3    # internal write method on a read-only parameter
    return p


def strip_private(di):
    """C04/C06 use grid-aligned scaled limits: the description is the contract"""
    if isinstance(di, dict):
        return {k: strip_private(v) for k, v in di.items() if not k.startswith('_')}
    if isinstance(di, list):
        return [strip_private(v) for v in di]
    return di


def gen_command(rng, name):
    arg = rng.choice([None, 'leaf', 'leaf', 'tuple', 'struct'])
    res = rng.choice([None, None, 'leaf'])
    if arg == 'leaf':
        aspec = strip_private(gen_dt.gen_leaf(rng))
    elif arg == 'tuple':
        aspec = {'type': 'tuple', 'members': [strip_private(gen_dt.gen_leaf(rng)) for _ in range(rng.choice([1, 2, 3]))]}
    elif arg == 'struct':
        names = rng.sample(['a', 'b', 'c'], rng.choice([1, 2, 3]))
        aspec = {'type': 'struct', 'members': {n: strip_private(gen_dt.gen_leaf(rng)) for n in names}}
        opt = [n for n in names if rng.random() < 0.4]
        aspec['optional'] = opt       # optional = arguments with defaults (set by the Command decorator)
    else:
        aspec = None
    rspec = strip_private(gen_dt.gen_leaf(rng)) if res else None
    exp = True
    q = rng.random()
    if q < 0.1:
        exp = False
    elif q < 0.2:
        exp = '_cmdalias_' + name
    return {'name': name, 'arg': aspec, 'result': rspec, 'export': exp,
            'result_value': gen_dt.gen_valid(rspec, rng, True) if rspec else None}


def gen_module(rng, name, base=None):
    base = base or rng.choice(['Module', 'Module', 'Readable', 'Writable', 'Drivable'])
    m = {'name': name, 'base': base, 'export': rng.random() > 0.12, 'params': [], 'commands': [],
         'description': f'generated module {name}'}
    used = set()
    if base in ('Readable', 'Writable', 'Drivable'):
        v = gen_param(rng, 'value', kinds=['double', 'double', 'int', 'scaled'])
        v.update(readonly=True, constant=None, export=True, has_read=True, has_write=False, check=None, limits=None)
        m['params'].append(v)
        used.add('value')
        if base != 'Readable':
            t = {**v, 'spec': dict(v['spec']), 'name': 'target', 'readonly': False, 'has_read': False, 'has_write': True,
                 'write_returns': rng.choice(['value', 'none']),
                 'limits': rng.choice([None, 'minmax', 'limits', 'max']), 'check': rng.choice([None, None, 'reject-all'])}
            m['params'].append(t)
            used.add('target')
    for i in range(rng.choice([1, 2, 3, 4])):
        n = f'p{i}'
        m['params'].append(gen_param(rng, n))
    for i in range(rng.choice([0, 1, 2])):
        m['commands'].append(gen_command(rng, f'c{i}'))
    return m


def wire_name(acc):
    """ground truth for the wire name (None = not exported)"""
    e = acc['export']
    if e is False:
        return None
    if e is True:
        return acc['name'] if acc['name'] in PREDEFINED else '_' + acc['name']
    return e


def limit_params(p):
    """names of the generated limit parameters of p"""
    k = p.get('limits')
    if not k:
        return []
    n = p['name']
    return {'minmax': [n + '_min', n + '_max'], 'limits': [n + '_limits'], 'max': [n + '_max'], 'min': [n + '_min']}[k]


def limit_wire_name(p, lname):
    head = lname.rpartition('_')[0]
    return lname if head in PREDEFINED else '_' + lname


def type_limits(spec):
    if spec['type'] == 'double':
        return spec.get('min', -refdt.FMAX), spec.get('max', refdt.FMAX)
    if spec['type'] == 'int':
        return spec['min'], spec['max']
    sc = spec['scale']
    return spec['min'] * sc, spec['max'] * sc


def build_class(mspec, events, clock=None, hw=None):
    """-> real module class.  hw: dict (module, param) -> python value used by read functions"""
    from vlib import dtbuild
    import frappy.core as C
    from frappy.errors import RangeError
    base = getattr(C, mspec['base'])
    ns = {'__module__': 'vlib.modgen.generated', '__doc__': mspec['description']}
    if mspec.get('nopoll'):
        ns['enablePoll'] = False       # a module that is never polled (its configured values are still written at start-up)
    hw = hw if hw is not None else {}
    mname = mspec['name']
    const_errs = {}
    handler_params = []
    subns = {'__module__': 'vlib.modgen.generated', '__doc__': mspec['description']}   # split_limits: limits added by a subclass

    for p in mspec['params']:
        n = p['name']
        dt = dtbuild.build(p['spec'])
        kw = {'readonly': p['readonly'], 'export': p['export']}
        if p['constant'] is not None:
            kw['constant'] = gen_dt.to_py(p['spec'], p['constant'])
        else:
            kw['default'] = gen_dt.to_py(p['spec'], p['default'])
        ns[n] = C.Parameter(f'parameter {n}', dt, **kw)
        hw.setdefault((mname, n), gen_dt.to_py(p['spec'], p['default']))
        if p['has_read']:
            def rd(self, _n=n):
                events.append(('read', self.name, _n, None))
                exc = hw.pop(('__fail__', self.name, _n, 'read'), None)
                if exc is not None:
                    raise exc          # injected one-shot driver fault
                return hw[(self.name, _n)]
            rd.__name__ = 'read_' + n
            ns['read_' + n] = rd
        if p['has_write'] and mspec.get('write_handler') and p['write_returns'] == 'value':
            handler_params.append(n)        # written through ONE method made by frappy.rwhandler.WriteHandler (see below)
        elif p['has_write']:
            def wr(self, value, _n=n, _ret=p['write_returns']):
                events.append(('write', self.name, _n, value))
                exc = hw.pop(('__fail__', self.name, _n, 'write'), None)
                if exc is not None:
                    raise exc          # injected one-shot driver fault
                hw[(self.name, _n)] = value
                if ('__readback__', self.name, _n) in hw:
                    return hw.pop(('__readback__', self.name, _n))      # what the hardware claims to hold now (one shot)
                return None if _ret == 'none' else value
            wr.__name__ = 'write_' + n
            ns['write_' + n] = wr
        for ln in limit_params(p):
            (subns if mspec.get('split_limits') else ns)[ln] = C.Limit()
        if p['check']:
            def chk(self, value, _n=n, _kind=p['check']):
                events.append(('check', self.name, _n, value))

                def refusal(text):
                    # a driver may keep one error object and raise it again and again
                    if mspec.get('const_errors'):
                        return const_errs.setdefault((mname, _n), RangeError(text))
                    return RangeError(text)
                if _kind == 'reject-all':
                    raise refusal(f'{_n}: refused by check hook')
                if _kind == 'reject-odd-length':
                    try:
                        if len(value) % 2:
                            raise refusal(f'{_n}: odd length refused by check hook')
                    except TypeError:
                        pass
                return None
            chk.__name__ = 'check_' + n
            ns['check_' + n] = chk

    if handler_params:
        from frappy.rwhandler import WriteHandler

        def write_by_handler(self, pname, value):
            events.append(('write', self.name, pname, value))
            exc = hw.pop(('__fail__', self.name, pname, 'write'), None)
            if exc is not None:
                raise exc
            hw[(self.name, pname)] = value
            return value
        ns['write_by_handler'] = WriteHandler(handler_params)(write_by_handler)
    for c in mspec['commands']:
        argdt = dtbuild.build(c['arg']) if c['arg'] else None
        resdt = dtbuild.build(c['result']) if c['result'] else None
        resval = gen_dt.to_py(c['result'], c['result_value']) if c['result'] else None
        kwds = {'export': c['export']}
        if c['arg'] is None:
            def fn(self, _n=c['name'], _r=resval):
                events.append(('cmd', self.name, _n, None))
                return _r
        elif c['arg']['type'] == 'tuple':
            def fn(self, *args, _n=c['name'], _r=resval):
                events.append(('cmd', self.name, _n, tuple(args)))
                return _r
        elif c['arg']['type'] == 'struct':
            # keyworded call; optional members have defaults
            members = list(c['arg']['members'])
            opt = set(c['arg'].get('optional', []))
            params = ', '.join(f'{k}=None' if k in opt else k for k in sorted(members, key=lambda k: k in opt))
            src = f'def fn(self, {params}):\n    events.append(("cmd", self.name, {c["name"]!r}, dict({", ".join(f"{k}={k}" for k in members)})))\n    return resval\n'
            loc = {}
            exec(src, {'events': events, 'resval': resval}, loc)   # pylint: disable=exec-used
            fn = loc['fn']
        else:
            def fn(self, arg, _n=c['name'], _r=resval):
                events.append(('cmd', self.name, _n, arg))
                return _r
        fn.__name__ = c['name']
        fn.__doc__ = f'command {c["name"]}'
        ns[c['name']] = C.Command(argdt, result=resdt, **kwds)(fn)
    # SECoP features: mixins with Feature as a direct base class, placed before or after the interface class
    from frappy.modulebase import Feature
    before = [type(fn, (Feature,), {'__module__': 'vlib.modgen.generated'}) for fn, pos in mspec.get('features', []) if pos == 'before']
    after = [type(fn, (Feature,), {'__module__': 'vlib.modgen.generated'}) for fn, pos in mspec.get('features', []) if pos == 'after']
    cls = type('Gen_' + mname, tuple(before) + (base,) + tuple(after), ns)
    if mspec.get('split_limits'):
        # the class shape "parent defines the parameter (and maybe a check hook), a subclass adds the limit parameters"
        cls = type('Gen_' + mname + '_limited', (cls,), subns)
    return cls


def module_cfg(mspec, cls):
    cfg = {'cls': cls, 'description': mspec['description']}
    if not mspec['export']:
        cfg['export'] = False
    return cfg
