"""E4 - file-system fault injector for frappy.persistent

Rebinds `open` and `os` *as seen from frappy.persistent* (module-global shadowing); the real functions do
the work.  Counts operations of writing code (open-for-write, each write, close, rename, remove, mkdir); at
operation k it raises OSError (I/O failure model) or SimulatedCrash (process-crash model, BaseException so
that no `except Exception` can swallow it).  A crash during a write first performs a partial write.
Data written by the process stays in its own buffer until flush / close (a crash loses it); what was flushed is on
disk (no power-loss model)."""
import builtins
import os
import types


class SimulatedCrash(BaseException):
    pass


class Injector:
    def __init__(self):
        self.reset()

    def reset(self, at=None, mode=None):
        self.n = 0
        self.at = at
        self.mode = mode
        self.ops = []
        self.fired = None
        self.crashed = False

    def tick(self, what, partial=None):
        if self.crashed:
            raise SimulatedCrash('process is dead')   # finally-blocks of a dead process do not run
        self.n += 1
        self.ops.append(what)
        if self.at is not None and self.n == self.at:
            self.fired = what
            if self.mode == 'crash':
                if partial:
                    partial()
                self.crashed = True
                raise SimulatedCrash(what)
            raise OSError(5, 'injected I/O error', what)


class _File:
    """a file opened for writing by the code under test.

    Written data sits in the process's own buffer until it is flushed (buffer full, flush(), close()): a process
    crash loses it, and a failing flush at close (disk full) discards it.  Only what was flushed is on disk."""
    BUFSIZE = 8192

    def __init__(self, inj, f):
        self._inj = inj
        self._f = f
        self._buf = []

    def _flush_to_os(self):
        data, self._buf = self._buf, []
        for d in data:
            self._f.write(d)
        self._f.flush()

    def write(self, s):
        def partial():
            # the crash hits while this write is being carried out: what was buffered and half of it reach the disk
            self._buf.append(s[:len(s) // 2])
            self._flush_to_os()
        self._inj.tick('write', partial)
        self._buf.append(s)
        if sum(len(d) for d in self._buf) >= self.BUFSIZE:
            self._flush_to_os()
        return len(s)

    def flush(self):
        self._inj.tick('flush')
        self._flush_to_os()

    def __enter__(self):
        return self

    def __exit__(self, etype, *a):
        crashed = etype is not None and issubclass(etype, SimulatedCrash)
        try:
            if not crashed:
                self._inj.tick('close')        # may fail: the flush at close does not succeed, the buffered data is lost
                self._flush_to_os()
        finally:
            self._buf = []                    # a dead process (or a failed flush) leaves nothing more behind
            self._f.close()
        return False

    def close(self):
        try:
            self._inj.tick('close')
            self._flush_to_os()
        finally:
            self._buf = []
            self._f.close()

    def __getattr__(self, name):
        return getattr(self._f, name)


def install(module, inj):
    """shadow open/os in `module` (frappy.persistent)"""
    def fopen(path, mode='r', *a, **k):
        if any(c in mode for c in 'wax+'):
            inj.tick('open')
            return _File(inj, builtins.open(path, mode, *a, **k))
        return builtins.open(path, mode, *a, **k)

    shim = types.SimpleNamespace(**{k: getattr(os, k) for k in dir(os) if not k.startswith('__')})

    def rename(a, b):
        inj.tick('rename')
        return os.rename(a, b)

    def replace(a, b):
        inj.tick('rename')
        return os.replace(a, b)

    def remove(a):
        inj.tick('remove')
        return os.remove(a)

    def makedirs(*a, **k):
        if inj.crashed:
            raise SimulatedCrash('process is dead')
        return os.makedirs(*a, **k)

    shim.rename, shim.replace, shim.remove, shim.unlink, shim.makedirs = rename, replace, remove, remove, makedirs
    module.open = fopen
    module.os = shim
    return inj
