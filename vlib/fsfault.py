"""E4 - file-system fault injector for frappy.persistent

Rebinds `open` and `os` *as seen from frappy.persistent* (module-global shadowing); the real functions do
the work.  Counts operations of writing code (open-for-write, each write, close, rename, remove, mkdir); at
operation k it raises OSError (I/O failure model) or SimulatedCrash (process-crash model, BaseException so
that no `except Exception` can swallow it).  A crash during a write first performs a partial write.
Operations that returned are on disk (no power-loss model)."""
import builtins
import os
import types


class SimulatedCrash(BaseException):
    pass


class Injector:
    def __init__(self):
        self.reset()

    def reset(self, at=None, mode=None):
        self.n = 0
        self.at = at
        self.mode = mode
        self.ops = []
        self.fired = None
        self.crashed = False

    def tick(self, what, partial=None):
        if self.crashed:
            raise SimulatedCrash('process is dead')   # finally-blocks of a dead process do not run
        self.n += 1
        self.ops.append(what)
        if self.at is not None and self.n == self.at:
            self.fired = what
            if self.mode == 'crash':
                if partial:
                    partial()
                self.crashed = True
                raise SimulatedCrash(what)
            raise OSError(5, 'injected I/O error', what)


class _File:
    def __init__(self, inj, f):
        self._inj = inj
        self._f = f

    def write(self, s):
        def partial():
            self._f.write(s[:len(s) // 2])
            self._f.flush()
        self._inj.tick('write', partial)
        return self._f.write(s)

    def __enter__(self):
        return self

    def __exit__(self, etype, *a):
        try:
            if etype is None or not issubclass(etype, SimulatedCrash):
                self._inj.tick('close')
        finally:
            self._f.close()   # the OS closes (and keeps) what was written
        return False

    def close(self):
        self._inj.tick('close')
        self._f.close()

    def __getattr__(self, name):
        return getattr(self._f, name)


def install(module, inj):
    """shadow open/os in `module` (frappy.persistent)"""
    def fopen(path, mode='r', *a, **k):
        if any(c in mode for c in 'wax+'):
            inj.tick('open')
            return _File(inj, builtins.open(path, mode, *a, **k))
        return builtins.open(path, mode, *a, **k)

    shim = types.SimpleNamespace(**{k: getattr(os, k) for k in dir(os) if not k.startswith('__')})

    def rename(a, b):
        inj.tick('rename')
        return os.rename(a, b)

    def replace(a, b):
        inj.tick('rename')
        return os.replace(a, b)

    def remove(a):
        inj.tick('remove')
        return os.remove(a)

    def makedirs(*a, **k):
        if inj.crashed:
            raise SimulatedCrash('process is dead')
        return os.makedirs(*a, **k)

    shim.rename, shim.replace, shim.remove, shim.unlink, shim.makedirs = rename, replace, remove, remove, makedirs
    module.open = fopen
    module.os = shim
    return inj
