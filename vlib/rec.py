"""per-shard recorder: counts what the monitors observed; merged by the runner"""
import hashlib
import json
import collections


def jsonable(obj, depth=0):
    """lossy conversion of arbitrary witnesses to JSON (never raises)"""
    if depth > 12:
        return repr(obj)[:200]
    if obj is None or isinstance(obj, (bool, int, str)):
        return obj
    if isinstance(obj, float):
        if obj != obj or obj in (float('inf'), float('-inf')):
            return repr(obj)
        return obj
    if isinstance(obj, bytes):
        return {'bytes': obj.hex()}
    if isinstance(obj, dict):
        return {str(k): jsonable(v, depth + 1) for k, v in obj.items()}
    if isinstance(obj, (list, tuple, set, frozenset)):
        return [jsonable(v, depth + 1) for v in obj]
    return repr(obj)[:300]


def sig_hash(sig):
    return hashlib.blake2b(repr(sig).encode('utf-8', 'replace'), digest_size=8).hexdigest()


class Recorder:
    MAX_SAMPLES = 6
    MAX_DISTINCT = 400_000

    def __init__(self, shard=None):
        self.shard = shard
        self.evaluations = 0
        self.distinct = set()
        self.nontrivial = set()
        self.observed = collections.Counter()
        self.maxima = {}
        self.samples = []
        self.violations = {}   # key -> dict(count, what, case)
        self.notes = []
        self.exhaustive = None
        self.inconclusive = []
        self.bulk_distinct = 0
        self.bulk_nontrivial = 0

    def bulk(self, n, nontrivial):
        """cases that are distinct by construction (enumeration): counted, not hashed"""
        self.evaluations += n
        self.bulk_distinct += n
        self.bulk_nontrivial += nontrivial

    def case(self, sig, nontrivial=True, n=1):
        """one executed case; sig identifies it up to the per-property equivalence"""
        self.evaluations += n
        h = sig_hash(sig)
        if len(self.distinct) < self.MAX_DISTINCT:
            self.distinct.add(h)
            if nontrivial:
                self.nontrivial.add(h)

    def count(self, name, n=1):
        self.observed[name] += n

    def maximum(self, name, value):
        if name not in self.maxima or value > self.maxima[name]:
            self.maxima[name] = value

    def sample(self, obj, force=False):
        if force or len(self.samples) < self.MAX_SAMPLES:
            self.samples.append(jsonable(obj))

    def want_sample(self):
        return len(self.samples) < self.MAX_SAMPLES

    def violation(self, key, what, case):
        """key: the mechanism (classification), never a random value"""
        v = self.violations.get(key)
        if v is None:
            self.violations[key] = {'key': key, 'what': what, 'case': jsonable(case), 'count': 1,
                                    'shard': self.shard}
        else:
            v['count'] += 1

    def note(self, text):
        if len(self.notes) < 20:
            self.notes.append(text)

    def result(self):
        return {
            'evaluations': self.evaluations,
            'distinct': sorted(self.distinct),
            'nontrivial': sorted(self.nontrivial),
            'observed': dict(self.observed),
            'maxima': self.maxima,
            'samples': self.samples,
            'violations': list(self.violations.values()),
            'notes': self.notes,
            'exhaustive': self.exhaustive,
            'inconclusive': self.inconclusive,
            'bulk_distinct': self.bulk_distinct,
            'bulk_nontrivial': self.bulk_nontrivial,
        }


def merge(results):
    tot = {'evaluations': 0, 'distinct': set(), 'nontrivial': set(), 'observed': collections.Counter(),
           'maxima': {}, 'samples': [], 'violations': {}, 'notes': [], 'exhaustive': None, 'inconclusive': [],
           'bulk_distinct': 0, 'bulk_nontrivial': 0}
    for r in results:
        tot['evaluations'] += r['evaluations']
        tot['distinct'].update(r['distinct'])
        tot['nontrivial'].update(r['nontrivial'])
        tot['observed'].update(r['observed'])
        for k, v in r['maxima'].items():
            if k not in tot['maxima'] or v > tot['maxima'][k]:
                tot['maxima'][k] = v
        if len(tot['samples']) < 8:
            tot['samples'].extend(r['samples'][:2])
        for v in r['violations']:
            o = tot['violations'].get(v['key'])
            if o is None:
                tot['violations'][v['key']] = dict(v)
            else:
                o['count'] += v['count']
        tot['notes'].extend(r['notes'])
        if r['exhaustive'] is not None:
            tot['exhaustive'] = r['exhaustive'] if tot['exhaustive'] is None else (tot['exhaustive'] and r['exhaustive'])
        tot['inconclusive'].extend(r['inconclusive'])
        tot['bulk_distinct'] += r.get('bulk_distinct', 0)
        tot['bulk_nontrivial'] += r.get('bulk_nontrivial', 0)
    return tot
