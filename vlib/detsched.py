"""detsched - seeded cooperative scheduler for REAL threads of the REAL code, with a virtual clock

The code under test is imported with shimmed `threading` / `time` / `queue` (vlib.shimimport), so its
locks, events, queues, threads and clock are the cooperative objects below.  Exactly one controlled
thread runs at a time; at every yield point (shim operation, harness boundary, LINE event of a watched
code object) the strategy decides who continues.  Time is virtual: +1 us per time() call, and a jump
to the earliest deadline when nobody can run.

strategies
  ('seq',)            never preempt (switch only when the running thread blocks)
  ('rw', p)           random walk: preempt with probability p at each yield point
  ('pct', d, n)       priority based, d-1 priority change points among the first n yield points
  ('prefix', [...])   forced preemptions [(choice point index, thread ident), ...] then 'seq'
                      (used by `explore_pb` = stateless enumeration of all schedules with <= k preemptions)
"""
import hashlib
import queue as _queue
import random
import sys
import threading
import time as _time
import traceback

_real_Thread = threading.Thread
_real_Semaphore = threading.Semaphore
_real_Lock = threading.Lock

STARVE = 400
CURRENT = None       # the installed scheduler (one per process at a time)
T0 = 1_700_000_000.0


class SchedAbort(BaseException):
    """raised inside parked threads at teardown"""


class Sched:
    def __init__(self, strategy=('seq',), seed=0, horizon=120.0, grace=15.0, max_steps=400_000, block_order='min'):
        self.strategy = strategy
        self.rng = random.Random(seed)
        self.threads = []
        self.current = None
        self.now = T0
        self.horizon = T0 + horizon
        self.grace = grace
        self.max_steps = max_steps
        self.block_order = block_order
        self.aborting = False
        self.done_evt = threading.Event()
        self.status = None          # 'ok' | 'deadlock' | 'horizon' | 'budget'
        self.nyield = 0
        self.ntime = 0
        self.nswitch = 0
        self.npreempt = 0
        self.cp = 0                 # choice point counter (yield points with >= 2 ready threads)
        self.choice_log = []        # per choice point: tuple of alternative thread idents (besides the current one)
        self.sig = hashlib.blake2b(digest_size=8)
        self.escaped = []           # exceptions escaping controlled threads
        self.lock_waits = []
        self.root = None
        self.root_done_at = None
        self.events = []            # total-order event log for the harness: (logical step, virtual time, thread name, *payload)
        self.prio = {}
        mode = strategy[0]
        self.mode = mode
        self.p = strategy[1] if mode == 'rw' else 0.0
        # ('labels', {label: probability}, default): like 'rw', with the probability of a preemption depending on the kind
        # of the yield point ('thread.start', 'event.set', 'acquire', ...): directs runs at races around these operations
        self.label_p = dict(strategy[1]) if mode == 'labels' else {}
        if mode == 'labels':
            self.p = strategy[2] if len(strategy) > 2 else 0.0
        self.prefix = dict(strategy[1]) if mode == 'prefix' else {}
        if mode == 'pct':
            d, n = strategy[1], strategy[2]
            self.change_points = set(self.rng.sample(range(1, max(n, d) + 1), max(0, d - 1)))
        else:
            self.change_points = set()

    # ------------------------------------------------------------------ helpers for the harness
    def log(self, *payload):
        t = self.me()
        self.events.append((len(self.events), self.now, t.name if t else '?', *payload))

    def me(self):
        return getattr(threading.current_thread(), '_co', None)

    def controlled(self):
        t = self.me()
        return t is not None and t.sched is self and not self.aborting

    def signature(self):
        return self.sig.hexdigest()

    # ------------------------------------------------------------------ core
    def _ready(self):
        return [t for t in self.threads if t.state == 'ready']

    def _pick(self, cur_ok, label=None):
        """choose the thread to run next; cur_ok: the current thread could continue"""
        ready = self._ready()
        cur = self.current
        if not ready:
            return None
        if self.mode == 'pct':
            for t in ready:
                if t.ident_ not in self.prio:
                    self.prio[t.ident_] = 1.0 + self.rng.random()
            if cur_ok and self.nyield in self.change_points:
                self.prio[cur.ident_] = self.rng.random() * 0.5      # below all initial priorities
            best = max(ready, key=lambda t: self.prio[t.ident_])
            # fairness in the limit (real schedulers are fair): a ready thread that has been passed over for
            # STARVE yield points runs once - strict priorities would turn every polling loop into a livelock
            for t in ready:
                if t is not best:
                    t.starved += 1
                    if t.starved > STARVE:
                        best = t
            best.starved = 0
            return best
        if cur_ok and cur.state == 'ready':
            if len(ready) > 1:
                idx = self.cp
                self.cp += 1
                others = sorted(t.ident_ for t in ready if t is not cur)
                if len(self.choice_log) < 4000:
                    self.choice_log.append(tuple(others))
                if self.mode == 'prefix':
                    want = self.prefix.get(idx)
                    if want is not None:
                        for t in ready:
                            if t.ident_ == want:
                                return t
                    return cur
                if self.mode == 'rw' and self.rng.random() < self.p:
                    return self.rng.choice([t for t in ready if t is not cur])
                if self.mode == 'labels' and self.rng.random() < self.label_p.get(label[0] if isinstance(label, tuple) else label, self.p):
                    return self.rng.choice([t for t in ready if t is not cur])
            return cur
        # the current thread can not continue
        if self.mode in ('rw', 'labels'):
            return self.rng.choice(ready)
        if self.block_order == 'max':
            return max(ready, key=lambda t: t.ident_)
        return min(ready, key=lambda t: t.ident_)

    def _transfer(self, me, nxt):
        self.nswitch += 1
        self.sig.update(b'%d>%d@%d;' % (me.ident_, nxt.ident_, self.nyield))
        self.current = nxt
        nxt._go.release()
        if me.state != 'done':
            me._go.acquire()
            if self.aborting:
                raise SchedAbort()

    def yield_point(self, label=None):
        if self.aborting:
            raise SchedAbort()
        me = self.me()
        if me is None or me is not self.current:
            return
        self.nyield += 1
        if self.nyield > self.max_steps:
            self._finish('budget')
            me._go.acquire()
            raise SchedAbort()
        if self.now > self.horizon:
            self._finish('horizon')
            me._go.acquire()
            raise SchedAbort()
        nxt = self._pick(True, label)
        if nxt is not me and nxt is not None:
            self.npreempt += 1
            self._transfer(me, nxt)

    def block(self, obj, timeout=None):
        """block the current thread on obj; returns False on (virtual) time-out"""
        if self.aborting:
            raise SchedAbort()
        me = self.me()
        if me is not self.current:
            raise RuntimeError(f'uncontrolled thread {threading.current_thread().name} would block on {obj!r}')
        me.state = 'blocked'
        me.wait_on = obj
        me.deadline = None if timeout is None or timeout < 0 else self.now + timeout
        me.timed_out = False
        self._dispatch(me)
        return not me.timed_out

    def _dispatch(self, me):
        """the current thread can not continue (blocked or done): run somebody else"""
        while True:
            if self.root_done_at is not None:
                alive = [t for t in self.threads if t.state != 'done']
                if not alive or self.now > self.root_done_at + self.grace:
                    self._finish('ok')
                    if me.state != 'done':
                        me._go.acquire()
                        raise SchedAbort()
                    return
            if self.now > self.horizon:
                self._finish('horizon')
                if me.state != 'done':
                    me._go.acquire()
                    raise SchedAbort()
                return
            nxt = self._pick(False)
            if nxt is not None:
                break
            timed = [t for t in self.threads if t.state == 'blocked' and t.deadline is not None]
            if not timed:
                if all(t.state == 'done' for t in self.threads):
                    self._finish('ok')
                    return
                self._finish('ok' if self.root_done_at is not None else 'deadlock')
                if me.state != 'done':
                    me._go.acquire()
                    raise SchedAbort()
                return
            dl = min(t.deadline for t in timed)
            self.now = max(self.now, dl)
            for t in timed:
                if t.deadline <= self.now:
                    t.state = 'ready'
                    t.timed_out = True
                    t.wait_on = None
        if nxt is me:
            self.current = me
            return
        self._transfer(me, nxt)

    def wake(self, obj):
        for t in self.threads:
            if t.state == 'blocked' and t.wait_on is obj:
                t.state = 'ready'
                t.wait_on = None

    def _finish(self, status):
        if self.status is None:
            self.status = status
            self.alive = [(t.name, t.state, type(t.wait_on).__name__, getattr(t.wait_on, 'label', '')) for t in self.threads
                          if t.state != 'done']
            # who waits for a lock held by whom (taken now: the locks are released when the threads are unwound)
            self.lock_waits = [(t.name, id(t.wait_on), getattr(getattr(t.wait_on, 'owner', None), 'name', None)) for t in self.threads
                               if t.state != 'done' and isinstance(t.wait_on, CoLock)]
        self.done_evt.set()

    # ------------------------------------------------------------------ run
    def run(self, fn, wall_timeout=30):
        global CURRENT
        assert CURRENT is None, 'one scheduler at a time'
        CURRENT = self
        try:
            self.root = CoThread(target=fn, name='root')
            self.root.is_root = True
            self.root.start_root()
            finished = self.done_evt.wait(wall_timeout)
            if not finished:
                self.status = 'watchdog'
                self.alive = [(t.name, t.state, type(t.wait_on).__name__, '') for t in self.threads if t.state != 'done']
        finally:
            self.abort()
            CURRENT = None
        return self

    def abort(self):
        self.aborting = True
        for t in self.threads:
            if t.state != 'done':
                t._go.release()
        for t in self.threads:
            t.real_join(2)

    # ------------------------------------------------------------------ virtual time
    def time(self):
        self.now += 1e-6
        self.ntime += 1
        if self.ntime > self.max_steps * 20 and not self.aborting:
            # a loop that only reads the clock (no other yield point): count it against the step budget
            me = self.me()
            if me is not None and me is self.current:
                self._finish('budget')
                me._go.acquire()
                raise SchedAbort()
        return self.now

    def sleep(self, secs):
        if not self.controlled():
            return
        self.yield_point('sleep')
        if secs and secs > 0:
            self.block(SLEEP, secs)


class _Sleep:
    label = 'sleep'


SLEEP = _Sleep()


class CoThread(_real_Thread):
    is_root = False

    def __init__(self, group=None, target=None, name=None, args=(), kwargs=None, daemon=None):
        super().__init__(group=group, target=target, name=name, args=args, kwargs=kwargs or {}, daemon=True)
        self.sched = CURRENT
        self._co = self
        self._go = _real_Semaphore(0)
        self.state = 'new'
        self.wait_on = None
        self.deadline = None
        self.timed_out = False
        self.starved = 0
        self.ident_ = len(self.sched.threads) if self.sched else -1

    def start(self):
        s = self.sched
        if s is None or s.aborting:
            raise RuntimeError('thread started without a scheduler')
        self.state = 'ready'
        self.ident_ = len(s.threads)
        s.threads.append(self)
        super().start()
        s.yield_point('thread.start')

    def start_root(self):
        s = self.sched
        self.state = 'ready'
        self.ident_ = 0
        s.threads.append(self)
        s.current = self
        super().start()
        self._go.release()

    def run(self):
        s = self.sched
        self._go.acquire()
        try:
            if s.aborting:
                return
            super().run()
        except SchedAbort:
            pass
        except SystemExit:
            pass
        except BaseException as e:      # an exception escaping a thread is an observed event
            s.escaped.append((self.name, f'{type(e).__name__}: {e}'[:300], traceback.format_exc()[-1500:]))
        finally:
            self.state = 'done'
            if not s.aborting:
                if self.is_root:
                    s.root_done_at = s.now
                s.wake(self)
                try:
                    s._dispatch(self)
                except SchedAbort:
                    pass

    def join(self, timeout=None):
        s = self.sched
        if s is None or not s.controlled():
            return self.real_join(timeout)
        s.yield_point('join')
        end = None if timeout is None else s.now + timeout
        while self.state not in ('done', 'new'):
            if not s.block(self, None if end is None else max(0.0, end - s.now)):
                return

    def real_join(self, timeout=None):
        _real_Thread.join(self, timeout)

    def is_alive(self):
        return self.state in ('ready', 'blocked')


class CoLock:
    reentrant = False
    label = 'lock'

    def __init__(self):
        self.owner = None
        self.count = 0

    def acquire(self, blocking=True, timeout=-1):
        s = CURRENT
        if s is None or not s.controlled():
            # set-up code outside a run: uncontended
            if self.owner is not None and not self.reentrant:
                raise RuntimeError('lock contention outside the scheduler')
            self.owner = threading.current_thread()
            self.count += 1
            return True
        me = s.me()
        s.yield_point('acquire')
        end = None if timeout is None or timeout < 0 else s.now + timeout
        while self.owner is not None and not (self.reentrant and self.owner is me):
            if not blocking:
                return False
            if not s.block(self, None if end is None else max(0.0, end - s.now)):
                return False
        self.owner = me
        self.count += 1
        return True

    def release(self):
        self.count -= 1
        if self.count <= 0:
            self.count = 0
            self.owner = None
            s = CURRENT
            if s is not None and not s.aborting:
                s.wake(self)

    def locked(self):
        return self.owner is not None

    def __enter__(self):
        return self.acquire()

    def __exit__(self, *a):
        self.release()


class CoRLock(CoLock):
    reentrant = True
    label = 'rlock'


class CoEvent:
    label = 'event'

    def __init__(self):
        self.flag = False

    def is_set(self):
        return self.flag

    isSet = is_set

    def set(self):
        s = CURRENT
        if s is not None and s.controlled():
            s.yield_point('event.set')
        self.flag = True
        if s is not None and not s.aborting:
            s.wake(self)

    def clear(self):
        self.flag = False

    def wait(self, timeout=None):
        s = CURRENT
        if s is None or not s.controlled():
            if self.flag:
                return True
            raise RuntimeError('Event.wait would block outside the scheduler')
        s.yield_point('event.wait')
        end = None if timeout is None else s.now + timeout
        while not self.flag:
            if not s.block(self, None if end is None else max(0.0, end - s.now)):
                break
        return self.flag


class CoQueue:
    label = 'queue'

    def __init__(self, maxsize=0):
        self.maxsize = maxsize
        self.items = []

    def qsize(self):
        return len(self.items)

    def empty(self):
        s = CURRENT
        if s is not None and s.controlled():
            s.yield_point('q.empty')
        return not self.items

    def full(self):
        return bool(self.maxsize) and len(self.items) >= self.maxsize

    def put(self, item, block=True, timeout=None):
        s = CURRENT
        if s is None or not s.controlled():
            if self.maxsize and len(self.items) >= self.maxsize:
                raise _queue.Full
            self.items.append(item)
            return
        s.yield_point('q.put')
        end = None if timeout is None else s.now + timeout
        while self.maxsize and len(self.items) >= self.maxsize:
            if not block:
                raise _queue.Full
            if not s.block(self, None if end is None else max(0.0, end - s.now)):
                raise _queue.Full
        self.items.append(item)
        s.wake(self)

    def put_nowait(self, item):
        return self.put(item, False)

    def get(self, block=True, timeout=None):
        s = CURRENT
        if s is None or not s.controlled():
            if not self.items:
                raise _queue.Empty
            return self.items.pop(0)
        s.yield_point('q.get')
        end = None if timeout is None else s.now + timeout
        while not self.items:
            if not block:
                raise _queue.Empty
            if not s.block(self, None if end is None else max(0.0, end - s.now)):
                raise _queue.Empty
        item = self.items.pop(0)
        s.wake(self)
        return item

    def get_nowait(self):
        return self.get(False)


def vtime():
    s = CURRENT
    if s is None or s.aborting:
        return _time.time()
    return s.time()


def vsleep(secs):
    s = CURRENT
    if s is None:
        return
    s.sleep(secs)


# ---------------------------------------------------------------------- LINE yield points (sys.monitoring)

TOOL = 3
_watched = set()
_mon_ready = False


def _line_cb(code, line):
    s = CURRENT
    if s is not None and not s.aborting:
        me = getattr(threading.current_thread(), '_co', None)
        if me is not None and me is s.current:
            if LINE_HOOK is not None:
                LINE_HOOK(code, line, me)       # a check may act "as another thread would at this point"
            s.yield_point(('line', code.co_name, line))


LINE_HOOK = None


def watch_lines(*funcs):
    """make every statement of the given functions a yield point; unknown / missing objects are skipped
    (returns the number of code objects watched: less reach, never an alarm)"""
    global _mon_ready
    mon = sys.monitoring
    if not _mon_ready:
        if mon.get_tool(TOOL) is None:
            mon.use_tool_id(TOOL, 'detsched')
        mon.register_callback(TOOL, mon.events.LINE, _line_cb)
        _mon_ready = True
    n = 0
    for f in funcs:
        code = getattr(f, '__code__', None) or getattr(getattr(f, '__func__', None), '__code__', None) or (f if hasattr(f, 'co_code') else None)
        if code is None:
            continue
        if code not in _watched:
            mon.set_local_events(TOOL, code, mon.events.LINE)
            _watched.add(code)
        n += 1
    return n


def unwatch_all():
    mon = sys.monitoring
    for code in list(_watched):
        mon.set_local_events(TOOL, code, 0)
    _watched.clear()


# ---------------------------------------------------------------------- exploration drivers

def run(fn, strategy=('seq',), seed=0, **kw):
    return Sched(strategy, seed, **kw).run(fn)


def explore_pb(make_fn, k, max_runs=100000, wall_budget=None, **kw):
    """stateless enumeration of all schedules with <= k preemptions.
    make_fn() -> fresh root function for one run.  yields (prefix, sched) for every run;
    sets explore_pb.complete = True if the space was exhausted"""
    t_end = None if wall_budget is None else _time.time() + wall_budget
    stack = [[]]
    runs = 0
    explore_pb.complete = False
    while stack:
        if runs >= max_runs or (t_end is not None and _time.time() > t_end):
            return
        prefix = stack.pop()
        s = Sched(('prefix', prefix), 0, **kw).run(make_fn())
        runs += 1
        yield prefix, s
        if len(prefix) < k:
            first = prefix[-1][0] + 1 if prefix else 0
            for i in range(first, len(s.choice_log)):
                for alt in s.choice_log[i]:
                    stack.append(prefix + [(i, alt)])
    explore_pb.complete = True
