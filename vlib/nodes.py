"""node builder: the real Server._processCfg / SecNode / Dispatcher on dict configurations"""
from vlib import env

env.setup()

import frappy.server   # noqa: E402
import frappy.secnode  # noqa: E402
import frappy.protocol.dispatcher  # noqa: E402
env.fix_version()


class Node(frappy.server.Server):
    """like frappy.playground.Playground: no config file, no signal handlers, no interfaces"""

    def __init__(self, module_cfg, node_cfg=None, testonly=True, name='vnode', log=None):   # pylint: disable=super-init-not-called
        self.log = log or env.Log()
        self.name = name
        self.node_cfg = {'cls': 'frappy.protocol.dispatcher.Dispatcher', 'equipment_id': 'verif.node',
                         'description': 'generated node'}
        self.node_cfg.update(node_cfg or {})
        self.module_cfg = module_cfg
        self._testonly = testonly
        self._cfgfiles = ['generated']
        self.interfaces = {}
        self.discovery = None

    def build(self):
        self._processCfg()
        return self

    @property
    def records(self):
        return self.log.records


class Conn:
    """fake connection for the dispatcher: records what is sent; deterministic hash"""
    _n = 0

    def __init__(self, name=None, clock=None):
        Conn._n += 1
        self.n = Conn._n
        self.name = name or f'conn{self.n}'
        self.out = []
        self.clock = clock

    def send_reply(self, msg):
        self.out.append(msg)

    def __hash__(self):
        return self.n

    def __eq__(self, other):
        return self is other

    def __repr__(self):
        return f'<{self.name}>'


class _Disp:
    def __init__(self):
        self.updates = []

    def announce_update(self, moduleobj, pobj):
        self.updates.append((moduleobj.name, pobj.name, pobj.value, pobj.readerror, pobj.timestamp))


class _Srv:
    def __init__(self):
        self.dispatcher = _Disp()
        self.secnode = None


def make_module(cls, name='m', srv=None, log=None, **cfg):
    """instantiate one module class stand-alone (as the repository's own tests do)"""
    srv = srv or _Srv()
    cfg.setdefault('description', 'generated')
    return cls(name, log or env.Log(), cfg, srv)
