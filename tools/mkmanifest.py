#!/usr/bin/env python3
"""regenerate MANIFEST.json from the table below (maintenance helper)"""
import json, os
here = os.path.dirname(os.path.dirname(os.path.abspath(__file__)))
CHECKS = json.load(open(os.path.join(here, 'tools', 'checks.json')))
props = [json.loads(l)['id'] for l in open(os.path.join(here, 'properties.jsonl'))]
checks = []
for pid in props:
    c = CHECKS.get(pid)
    if not c or c.get('not_applicable'):
        continue
    checks.append({
        'property_id': pid,
        'quick_cmd': f'./vcheck {pid} --tier quick',
        'thorough_cmd': f'./vcheck {pid} --tier thorough',
        'evidence_file': f'/verif/evidence/{pid}.json',
        'replay_cmd_template': f'./vcheck {pid} --replay {{path}}',
        'engine': c.get('engine', 'vcheck'),
        'level_claimed': {'category': c.get('level', 'exploration'), 'text': c['text'], 'design_ref': f'DESIGN.md section 6, {pid}'},
        'level_note': c['note'],
        'technique': c['technique'],
    })
na = [{'property_id': pid, 'reason': (CHECKS.get(pid) or {}).get('not_applicable', 'check not built yet (work in progress)')}
      for pid in props if pid not in {c['property_id'] for c in checks}]
man = {
    'version': 1,
    'setup_cmd': './setup.sh',
    'hooks': {'guard': 'FRAPPY_VERIF', 'enable': 'no hooks in /repo: all observation points are harness-supplied objects or module-level names rebound in the workload process; checks set FRAPPY_VERIF=1 anyway',
              'baseline_off_cmd': 'cd /repo && /venv/bin/python -m pytest -ra -q -p no:cacheprovider --timeout=900 --continue-on-collection-errors',
              'source_commits': [], 'add_only': True},
    'engines': [
        {'name': 'vcheck', 'path': 'vlib/runner.py', 'serves_properties': props, 'kind_free_text': 'sharded workload runner, evidence + known-findings classification'},
        {'name': 'refdt', 'path': 'vlib/refdt.py', 'serves_properties': ['C01', 'C02', 'C03', 'C04', 'C06', 'C12'], 'kind_free_text': 'independent reference semantics of SECoP datainfo (oracle)'},
        {'name': 'detsched', 'path': 'vlib/detsched.py', 'serves_properties': ['C05', 'C08', 'C11', 'C13', 'C15', 'C16'], 'kind_free_text': 'seeded cooperative scheduler for real threads + virtual clock'},
    ],
    'checks': checks,
    'not_applicable': na,
    'notes': 'runtime monitoring only; compiler sanitizers do not apply (pure Python). exit 2 = inconclusive.',
}
json.dump(man, open(os.path.join(here, 'MANIFEST.json'), 'w'), indent=1)
print(len(checks), 'checks,', len(na), 'not claimed')
