#!/usr/bin/env python3
"""regenerate the generated appendices of DESIGN.md

Appendix A: every entry of known_findings.json (key, status, commit, what)
Appendix B: self-test mutants (selftest/last_mutant_run.json) and seeded changes (seeded/*/meta.json)
            with the checks that caught them
Everything after the marker line is replaced.
"""
import glob
import json
import os

VERIF = os.path.dirname(os.path.dirname(os.path.abspath(__file__)))
MARK = '<!-- generated appendices below: tools/mkappendix.py -->'


def esc(s):
    return str(s).replace('|', '\\|').replace('\n', ' ')


def main():
    out = [MARK, '']
    kf = json.load(open(os.path.join(VERIF, 'known_findings.json')))['findings']
    out += ['## Appendix A — findings (`known_findings.json`)', '',
            '`fixed` = repaired in `/repo` by the named `fix:` commit (entry suppresses nothing, its witness is '
            'replayed in every run); `known` = recorded, reported as `KNOWN-FINDING` while it reproduces.', '',
            '| property | key (mechanism) | status | commit | what fails |', '|---|---|---|---|---|']
    for e in sorted(kf, key=lambda e: (e['property'], e['status'], e['key'])):
        what = e.get('what', '')
        if len(what) > 260:
            what = what[:257] + '...'
        rate = ' (max_rate %s)' % e['max_rate'] if 'max_rate' in e else ''
        out.append('| %s | `%s`%s | %s | %s | %s |' % (e['property'], esc(e['key']), rate, e['status'],
                                                     e.get('commit', '')[:7], esc(what)))
    nfixed = len({e.get('commit') for e in kf if e['status'] == 'fixed'})
    out += ['', '%d entries: %d known, %d fixed (%d distinct fix commits).' % (
        len(kf), sum(e['status'] == 'known' for e in kf), sum(e['status'] == 'fixed' for e in kf), nfixed), '']

    out += ['## Appendix B — which check catches which seeded change', '',
            '### B.1 Changes written by independent sub-agents (`seeded/<id>/`)', '',
            'Each was verified by us in a scratch worktree: pinned suite unchanged (301 passed), demonstration exits 1 '
            'on the changed tree and 0 on `/repo`; then the checks were run against the changed tree.', '',
            '| id | property | what was changed | needs | checks run → result |', '|---|---|---|---|---|']
    for mp in sorted(glob.glob(os.path.join(VERIF, 'seeded', '*', 'meta.json'))):
        m = json.load(open(mp))
        v = m.get('verified_by_us', {})
        res = []
        for c, r in sorted(v.get('checks', {}).items()):
            if r.get('caught'):
                res.append('%s **caught** (%s)' % (c, ', '.join('`%s`' % k for k in r.get('new_keys', [])[:2]) or 'violation'))
            else:
                res.append('%s not caught (exit %s)' % (c, r.get('exit')))
        for extra in m.get('notes_by_us', []):
            res.append(extra)
        out.append('| %s | %s | %s | %s | %s |' % (
            os.path.basename(os.path.dirname(mp)), m.get('property'), esc(m.get('summary', ''))[:300],
            esc(m.get('needs', ''))[:300], '; '.join(res)))
    out.append('')
    lm = os.path.join(VERIF, 'selftest', 'last_mutant_run.json')
    if os.path.exists(lm):
        runs = json.load(open(lm))
        res = runs.get('results', runs) if isinstance(runs, dict) else runs
        if isinstance(res, dict):
            res = list(res.values())
        out += ['### B.2 Self-test mutants (`selftest/mutants.json`, quick tier, one seed)', '',
                '| mutant | check | result | first keys |', '|---|---|---|---|']
        n = c = 0
        for r in sorted(res, key=lambda r: r.get('id', '')):
            n += 1
            caught = r.get('caught')
            c += bool(caught)
            out.append('| %s | %s | %s | %s |' % (r.get('id'), r.get('property',''),
                                                   'caught' if caught else '**MISSED**' if caught is False else r.get('status'),
                                                   ', '.join('`%s`' % esc(k) for k in (r.get('keys') or [])[:2])))
        out += ['', '%d of %d mutants caught.' % (c, n), '']
    path = os.path.join(VERIF, 'DESIGN.md')
    text = open(path).read()
    if MARK in text:
        text = text[:text.index(MARK)]
    text = text.rstrip('\n') + '\n\n\n' + '\n'.join(out) + '\n'
    open(path, 'w').write(text)
    print('appendices written:', len(out), 'lines')


if __name__ == '__main__':
    main()
