#!/usr/bin/env python3
"""write the prompts for fault-seeding sub-agents (one per property) and create their scratch worktrees

usage: mkseedprompts.py ROUND [PROP ...]      -> /tmp/seedprompts<ROUND>/CNN.txt, worktrees /tmp/seed<ROUND>-CNN
The agents see only the property text (statement, quantifier, anchored files), never anything from /verif.
Earlier seeded changes of the same property are summarised so that a new agent picks a different mechanism.
"""
import glob
import json
import os
import subprocess
import sys

VERIF = os.path.dirname(os.path.dirname(os.path.abspath(__file__)))
TEMPLATE = open(os.path.join(VERIF, 'seeded', 'PROMPT-example-C01.txt')).read()


def main():
    rnd = sys.argv[1]
    only = sys.argv[2:]
    props = [json.loads(l) for l in open(os.path.join(VERIF, 'properties.jsonl'))]
    outdir = f'/tmp/seedprompts{rnd}'
    os.makedirs(outdir, exist_ok=True)
    # split the example at the property block
    head, rest = TEMPLATE.split('PROPERTY (the behaviour users rely on):')
    _, tail = rest.split('TASK: make ONE small', 1)
    for p in props:
        pid = p['id']
        if only and pid not in only:
            continue
        wt = f'/tmp/seed{rnd}-{pid}'
        out = f'/tmp/seed{rnd}-{pid}-out'
        earlier = []
        for mp in sorted(glob.glob(os.path.join(VERIF, 'seeded', '*', 'meta.json'))):
            m = json.load(open(mp))
            if m.get('property') == pid:
                earlier.append(m.get('summary', ''))
        block = (f"PROPERTY (the behaviour users rely on):\n  id: {pid}\n  title: {p['title']}\n  statement: {p['statement']}\n"
                 f"  quantified over: {p['quantifier']['text']}\n  code it is anchored in: {', '.join(p['anchors']['files'])}\n\n")
        if earlier:
            block += ('EARLIER SEEDERS already made the following changes for this property - do something DIFFERENT '
                      '(another clause of the property, another mechanism, preferably another function or file):\n'
                      + ''.join(f'  - {e}\n' for e in earlier) + '\n')
        if rnd.isdigit() and int(rnd) >= 5:
            block += ('Many obvious places have been used up: also consider the helper code the anchored files rely on '
                      '(frappy/lib/*.py, frappy/properties.py, frappy/errors.py, frappy/params.py, frappy/config.py, '
                      'frappy/rwhandler.py, frappy/mixins.py, frappy/features.py) and rarely used options / class shapes that '
                      'still fall under the quantifier of the property.\n\n')
        block += ('Prefer a break that is hard to observe: one that needs a particular interleaving of two threads, a fault '
                  'at a particular point, a particular multi-step history, or a rare input class - and that a generic '
                  'randomised smoke test of the obvious API would most likely not stumble over.\n\n')
        text = head.replace('/tmp/seed-C01', wt) + block + 'TASK: make ONE small' + tail
        text = text.replace('/tmp/seed-C01-out', out).replace('/tmp/seed-C01', wt).replace('"property": "C01"', f'"property": "{pid}"')
        open(os.path.join(outdir, pid + '.txt'), 'w').write(text)
        if not os.path.isdir(wt):
            subprocess.run(['git', '-C', '/repo', 'worktree', 'add', '--detach', wt, 'HEAD'], check=True,
                           stdout=subprocess.DEVNULL, stderr=subprocess.DEVNULL)
        os.makedirs(out, exist_ok=True)
        print(pid, wt)


if __name__ == '__main__':
    main()
