import json, glob, os, subprocess, sys
from concurrent.futures import ThreadPoolExecutor
SEED=sys.argv[1] if len(sys.argv)>1 else '1'
jobs=[]
for d in sorted(glob.glob('/verif/seeded/*/')):
    n=os.path.basename(d.rstrip('/'))
    try: m=json.load(open(d+'meta.json'))
    except Exception: continue
    v=m.get('verified_by_us',{})
    checks=[k for k,c in v.get('checks',{}).items() if c.get('caught')] or [m.get('property', n[:3])]
    jobs.append((n, m.get('property', n[:3]), checks))
def run(j):
    n,prop,checks=j
    r=subprocess.run(['python3','/verif/tools/verify_seeded.py',n,prop,'/verif/seeded/'+n,'--skip-suite','--checks',','.join(checks),'--seed',SEED],capture_output=True,text=True,cwd='/verif')
    try:
        v=json.load(open(f'/verif/seeded/{n}/meta.json'))['verified_by_us']
        res={k:c['caught'] for k,c in v['checks'].items()}
        line=f"{n} demo={v['demo_changed']['exit']}/{v['demo_unchanged']['exit']} {res}"
    except Exception as e:
        line=f"{n} ERROR {e} {r.stdout[-200:]} {r.stderr[-200:]}"
    print(line, flush=True)
    return line
with ThreadPoolExecutor(4) as ex:
    list(ex.map(run, jobs))
print('ALLDONE')
