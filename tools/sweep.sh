#!/bin/sh
for sd in $(seq 10 40); do VERIF_SEED=$sd ./vcheck $1 --no-evidence 2>&1 | grep -v "^KNOWN\|observed" | cut -c1-300; done
