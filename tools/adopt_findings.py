#!/usr/bin/env python3
"""maintenance helper (never run by a check): copy vetted violations of the last run from
out/replay/<ID>/ into known_findings.json.  usage: adopt_findings.py C01 [key-substring ...]"""
import glob
import json
import os
import sys

here = os.path.dirname(os.path.dirname(os.path.abspath(__file__)))
prop = sys.argv[1]
filters = sys.argv[2:]
path = os.path.join(here, 'known_findings.json')
try:
    doc = json.load(open(path))
except FileNotFoundError:
    doc = {'findings': []}
have = {(e['property'], e['key']) for e in doc['findings']}
for f in sorted(glob.glob(os.path.join(here, 'out', 'replay', prop, '*.json'))):
    d = json.load(open(f))
    if filters and not any(x in d['key'] for x in filters):
        continue
    if (prop, d['key']) in have:
        continue
    doc['findings'].append({'property': prop, 'key': d['key'], 'status': 'known', 'what': d['what'],
                            'witness': d['case']})
    print('adopted', d['key'])
doc['findings'].sort(key=lambda e: (e['property'], e['key']))
json.dump(doc, open(path, 'w'), indent=1, sort_keys=True)
