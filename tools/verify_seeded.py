#!/usr/bin/env python3
"""verify a change seeded by a sub-agent and run our checks against it

usage: verify_seeded.py NAME PROP SRC_DIR [--checks C05,C08] [--tier quick] [--seed N]

SRC_DIR holds patch.diff, demo.py, meta.json (as delivered by the sub-agent).
- creates a scratch worktree of /repo (HEAD) outside /repo and /verif, applies the patch
- runs the pinned test-suite command there (expects 301 passed, the same 7 failed + 1 error)
- runs the demonstration against the changed worktree (expects exit 1) and against /repo (exit 0)
- runs the named checks (default: the property's own) with VERIF_REPO pointing at the worktree
- stores everything under /verif/seeded/NAME/ and removes the worktree
"""
import argparse
import json
import os
import re
import shutil
import subprocess
import sys
import tempfile
import time

VERIF = os.path.dirname(os.path.dirname(os.path.abspath(__file__)))
REPO = '/repo'
PY = '/venv/bin/python'


def run(cmd, **kw):
    return subprocess.run(cmd, stdout=subprocess.PIPE, stderr=subprocess.STDOUT, text=True, **kw)


def main():
    ap = argparse.ArgumentParser()
    ap.add_argument('name')
    ap.add_argument('prop')
    ap.add_argument('src')
    ap.add_argument('--checks', default=None)
    ap.add_argument('--tier', default='quick')
    ap.add_argument('--seed', default='1')
    ap.add_argument('--skip-suite', action='store_true')
    args = ap.parse_args()
    checks = (args.checks or args.prop).split(',')
    dst = os.path.join(VERIF, 'seeded', args.name)
    os.makedirs(dst, exist_ok=True)
    for fn in ('patch.diff', 'demo.py', 'meta.json'):
        s = os.path.join(args.src, fn)
        if os.path.exists(s) and os.path.abspath(s) != os.path.abspath(os.path.join(dst, fn)):
            shutil.copy(s, os.path.join(dst, fn))
    meta_path = os.path.join(dst, 'meta.json')
    try:
        meta = json.load(open(meta_path))
    except Exception:
        meta = {}
    meta['property'] = args.prop
    tmp = tempfile.mkdtemp(prefix='vseed-')
    wt = os.path.join(tmp, 'wt')
    out = os.path.join(tmp, 'out')
    os.makedirs(out)
    ran = {}
    try:
        r = run(['git', '-C', REPO, 'worktree', 'add', '--detach', wt, 'HEAD'])
        assert r.returncode == 0, r.stdout
        r = run(['git', '-C', wt, 'apply', os.path.join(dst, 'patch.diff')])
        ran['apply'] = {'exit': r.returncode, 'out': r.stdout[-400:]}
        if r.returncode:
            r = run(['git', '-C', wt, 'apply', '--3way', os.path.join(dst, 'patch.diff')])
            ran['apply_3way'] = {'exit': r.returncode, 'out': r.stdout[-400:]}
            assert r.returncode == 0, 'patch does not apply'
        if not args.skip_suite:
            r = run([PY, '-m', 'pytest', '-q', '-p', 'no:cacheprovider', '--timeout=900',
                     '--continue-on-collection-errors'], cwd=wt, timeout=1800)
            last = [l for l in r.stdout.splitlines() if 'passed' in l or 'failed' in l][-1:]
            ran['suite'] = {'cmd': 'cd <worktree> && /venv/bin/python -m pytest -q -p no:cacheprovider '
                                   '--timeout=900 --continue-on-collection-errors',
                            'last_line': last[0] if last else r.stdout[-300:]}
            m = re.search(r'(\d+) failed, (\d+) passed', ran['suite']['last_line'])
            ran['suite']['same_as_baseline'] = bool(m and m.group(1) == '7' and m.group(2) == '301'
                                                    and '1 error' in ran['suite']['last_line'])
        if os.path.exists(os.path.join(dst, 'demo.py')):
            for label, tree in (('changed', wt), ('unchanged', REPO)):
                try:
                    r = run([PY, os.path.join(dst, 'demo.py'), tree], timeout=600, cwd=tmp)
                    ran['demo_' + label] = {'exit': r.returncode, 'tail': r.stdout[-600:]}
                except subprocess.TimeoutExpired:
                    ran['demo_' + label] = {'exit': 'timeout'}
        ran['checks'] = {}
        for c in checks:
            env = dict(os.environ, VERIF_REPO=wt, VERIF_OUT=os.path.join(out, c))
            t0 = time.time()
            r = run([os.path.join(VERIF, 'vcheck'), c, '--tier', args.tier, '--seed', args.seed,
                     '--no-evidence'], env=env, cwd=VERIF, timeout=7200)
            lines = [l for l in r.stdout.splitlines()
                     if l.startswith(('VIOLATION', 'INCONCLUSIVE', 'KNOWN-FINDING'))]
            keys = []
            rd = os.path.join(out, c, 'replay', c)
            if os.path.isdir(rd):
                for fn in sorted(os.listdir(rd)):
                    try:
                        keys.append(json.load(open(os.path.join(rd, fn))).get('key'))
                    except Exception:
                        pass
            known = {e['key'] for e in json.load(open(os.path.join(VERIF, 'known_findings.json')))['findings']
                     if e.get('status') == 'known'}
            ran['checks'][c] = {
                'cmd': 'VERIF_REPO=<worktree> ./vcheck %s --tier %s --seed %s --no-evidence'
                       % (c, args.tier, args.seed),
                'exit': r.returncode, 'seconds': round(time.time() - t0, 1),
                'caught': r.returncode == 1,
                'new_keys': [k for k in keys if k not in known][:12],
                'violation_lines': len([l for l in lines if l.startswith('VIOLATION')]),
            }
    finally:
        run(['git', '-C', REPO, 'worktree', 'remove', '--force', wt])
        run(['git', '-C', REPO, 'worktree', 'prune'])
        shutil.rmtree(tmp, ignore_errors=True)
    prev = meta.get('verified_by_us', {})
    for k in ('suite', 'demo_changed', 'demo_unchanged'):
        if k not in ran and k in prev:
            ran[k] = prev[k]
    meta['verified_by_us'] = ran
    meta['verified_at_repo_head'] = run(['git', '-C', REPO, 'rev-parse', '--short', 'HEAD']).stdout.strip()
    json.dump(meta, open(meta_path, 'w'), indent=1)
    print(json.dumps(ran, indent=1))


if __name__ == '__main__':
    main()
