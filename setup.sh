#!/bin/sh
# offline provisioning: contracts libraries beside the repository's interpreter (git-ignored .deps)
HERE="$(cd "$(dirname "$0")" && pwd)"
PY="${VERIF_PYTHON:-/venv/bin/python}"
if [ ! -d "$HERE/.deps/icontract" ]; then
  PIP_NO_INDEX=1 "$PY" -m pip install --quiet --no-index --find-links /opt/veriftools/wheels \
     --target "$HERE/.deps" icontract deal 2>&1 | tail -3
fi
test -d "$HERE/.deps/icontract" || { echo "setup: icontract not installed (contracts will be plain wrappers)"; }
mkdir -p "$HERE/evidence" "$HERE/out"
exit 0
